#!/bin/bash
# Builds the instrumenter and warms the Go build cache (offline).
set -e
HERE=$(cd "$(dirname "$0")" && pwd)
. "$HERE/env.sh"
cd "$HERE/mc"
mkdir -p "$HERE/.bin"
go build -o "$HERE/.bin/instrument" ./instrument
WORK=$(mktemp -d /dev/shm/verif.XXXXXX 2>/dev/null || mktemp -d /tmp/verif.XXXXXX)
trap 'rm -rf "$WORK"' EXIT
"$HERE/.bin/instrument" -repo "$VERIF_REPO" -shim "$HERE/shim" -out "$WORK" -modcache "$(go env GOMODCACHE)"
go build -overlay "$WORK/overlay.json" -o "$WORK/verifmc" ./cmd/verifmc
echo setup ok
