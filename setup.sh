#!/bin/bash
# Builds the instrumenter and warms the Go build cache (offline).
set -e
HERE=$(cd "$(dirname "$0")" && pwd)
. "$HERE/env.sh"
cd "$HERE/mc"
mkdir -p "$HERE/.bin"
go build -o "$HERE/.bin/instrument" ./instrument
WORK=$(mktemp -d /dev/shm/verif.XXXXXX 2>/dev/null || mktemp -d /tmp/verif.XXXXXX)
trap 'rm -rf "$WORK"' EXIT
"$HERE/.bin/instrument" -repo "$VERIF_REPO" -shim "$HERE/shim" -out "$WORK" -modcache "$(go env GOMODCACHE)"
go build -overlay "$WORK/overlay.json" -o "$WORK/verifmc" ./cmd/verifmc
# warm the cache of the -race build used by the auxiliary pass of C07 and of the plain build of cmd/gofakes3 (C15)
go build -race -overlay "$WORK/overlay.json" -o "$WORK/verifmc-race" ./cmd/verifmc
(cd "$VERIF_REPO" && go build -o "$WORK/gofakes3-bin" ./cmd/gofakes3)
echo setup ok
