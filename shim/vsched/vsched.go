// Package vsched is the cooperative scheduler core used by the schedmc engine.
//
// It is mapped by a build-time overlay to the virtual directory
// /repo/zverif/vsched so that both the (instrumented) repository packages and
// the harness import the very same package. Nothing here exists in the real
// repository. The file must stay valid for the repository's language version
// (go 1.16: no generics).
//
// Model: harness "threads" are goroutines, exactly one of which runs at any
// time. A running thread calls Point before every visible operation and parks
// there; the explorer (Run's chooser) decides which parked thread continues.
// A thread is enabled iff the guard of the operation it is parked at holds.
package vsched

import (
	"fmt"
	"runtime/debug"
)

// Kind classifies visible operations (used for schedule signatures).
type Kind int

const (
	KStart Kind = iota
	KLock
	KRLock
	KWAnnounce
	KBodyRead
	KRespWrite
	KBoltView
	KBoltUpdate
	KFs
	KOther
)

func (k Kind) String() string {
	switch k {
	case KStart:
		return "start"
	case KLock:
		return "mu.Lock"
	case KRLock:
		return "mu.RLock"
	case KWAnnounce:
		return "mu.Lock-announce"
	case KBodyRead:
		return "body.Read"
	case KRespWrite:
		return "resp.Write"
	case KBoltView:
		return "bolt.View"
	case KBoltUpdate:
		return "bolt.Update"
	case KFs:
		return "fs"
	case KOther:
		return "stmt"
	}
	return "other"
}

type abortSignal struct{}

type thread struct {
	id      int
	wake    chan bool // true = continue, false = abort (unwind)
	kind    Kind
	label   string
	guard   func() bool
	done    bool
	started bool
	panicV  interface{}
	stack   string
	locks   int // modelled locks currently held by this thread
}

// PointInfo describes one scheduling decision.
type PointInfo struct {
	Enabled             []int  // canonical order: running thread first if enabled, then ascending ids
	Kinds               []Kind // kind of the op each enabled thread is parked at
	Labels              []string
	RunningStillEnabled bool
	Chosen              int // index into Enabled
}

// Result of one execution.
type Result struct {
	Points   []PointInfo
	Deadlock bool
	Blocked  []string // description of blocked threads on deadlock
	Horizon  bool
	Panics   map[int]string // thread id -> panic text + stack
	// IOUnderLock is set when a thread waited for its client (request body
	// read, response write) while holding a modelled lock or inside a bolt
	// transaction: a stalled client would then block every other request.
	IOUnderLock string
}

// Sched is one execution's scheduler.
type Sched struct {
	threads     []*thread
	running     int
	yield       chan struct{}
	atomicDepth int
	aborting    bool
	ioUnderLock string
}

var cur *Sched

// Cur returns the active scheduler or nil (free-running / sequential mode).
func Cur() *Sched { return cur }

// Active reports whether a scheduler is controlling execution.
func Active() bool { return cur != nil }

// Self returns the id of the running thread (-1 outside threads).
func (s *Sched) Self() int { return s.running }

// Aborting reports that the execution is being torn down (deadlock unwinding).
func (s *Sched) Aborting() bool { return s.aborting }

// Point parks the running thread before a visible operation. It returns when
// the explorer schedules the thread again, at which moment guard() holds and
// the caller performs the operation without interruption until its next Point.
func (s *Sched) Point(kind Kind, label string, guard func() bool) {
	if (kind == KBodyRead || kind == KRespWrite) && !s.aborting && s.running >= 0 && s.ioUnderLock == "" {
		if s.atomicDepth > 0 {
			s.ioUnderLock = kind.String() + " inside a bolt transaction"
		} else if s.threads[s.running].locks > 0 {
			s.ioUnderLock = kind.String() + " while holding a lock"
		}
	}
	if s.atomicDepth > 0 || s.aborting {
		return
	}
	if s.running < 0 {
		panic("vsched: Point called outside a scheduled thread")
	}
	t := s.threads[s.running]
	t.kind, t.label, t.guard = kind, label, guard
	s.yield <- struct{}{}
	if ok := <-t.wake; !ok {
		panic(abortSignal{})
	}
	t.guard = nil
}

// LockAcquired / LockReleased keep the per-thread count of modelled locks.
func (s *Sched) LockAcquired() {
	if s.running >= 0 {
		s.threads[s.running].locks++
	}
}
func (s *Sched) LockReleased() {
	if s.running >= 0 && s.threads[s.running].locks > 0 {
		s.threads[s.running].locks--
	}
}

// Yield is inserted by the instrumenter before every statement of the backend
// packages. It is a scheduling point only while the running thread holds no
// modelled lock and is not inside a bolt transaction: code that is properly
// protected is unaffected, a region that lost its protection becomes
// preemptible statement by statement.
func Yield() {
	s := cur
	if s == nil || s.aborting || s.atomicDepth > 0 || s.running < 0 {
		return
	}
	if s.threads[s.running].locks > 0 {
		return
	}
	s.Point(KOther, "stmt", nil)
}

// AtomicBegin/AtomicEnd bracket a region in which Points are suppressed.
func (s *Sched) AtomicBegin() { s.atomicDepth++ }
func (s *Sched) AtomicEnd()   { s.atomicDepth-- }

// Point is the package-level convenience used by shims and harness wrappers.
func Point(kind Kind, label string, guard func() bool) {
	if s := cur; s != nil {
		s.Point(kind, label, guard)
	}
}

// Go starts fn as a new scheduled thread when a scheduler is active (used for
// `go` statements introduced into instrumented code), else as a goroutine.
func Go(fn func()) {
	s := cur
	if s == nil || s.aborting {
		go fn()
		return
	}
	t := s.newThread(fn)
	_ = t
}

func (s *Sched) newThread(fn func()) *thread {
	t := &thread{id: len(s.threads), wake: make(chan bool), kind: KStart, label: "start"}
	s.threads = append(s.threads, t)
	go func() {
		if ok := <-t.wake; !ok {
			t.done = true
			s.yield <- struct{}{}
			return
		}
		t.started = true
		defer func() {
			if r := recover(); r != nil {
				if _, isAbort := r.(abortSignal); !isAbort {
					t.panicV = r
					t.stack = string(debug.Stack())
				}
			}
			t.done = true
			t.guard = nil
			s.yield <- struct{}{}
		}()
		fn()
	}()
	return t
}

// Run executes the thread bodies under the control of choose, which receives
// the decision point (Enabled etc. filled in) and its index and returns the
// index into Enabled of the thread to run. horizon bounds the number of points.
func Run(bodies []func(), choose func(i int, p *PointInfo) int, horizon int) *Result {
	if cur != nil {
		panic("vsched: nested Run")
	}
	s := &Sched{running: -1, yield: make(chan struct{})}
	for _, b := range bodies {
		s.newThread(b)
	}
	cur = s
	res := &Result{Panics: map[int]string{}}
	defer func() { cur = nil }()

	for {
		var en []int
		allDone := true
		for _, t := range s.threads {
			if t.done {
				continue
			}
			allDone = false
			if t.guard == nil || t.guard() {
				en = append(en, t.id)
			}
		}
		if allDone {
			break
		}
		if len(en) == 0 {
			res.Deadlock = true
			for _, t := range s.threads {
				if !t.done {
					res.Blocked = append(res.Blocked, fmt.Sprintf("T%d@%s(%s)", t.id, t.kind, t.label))
				}
			}
			s.abortAll()
			break
		}
		if len(res.Points) >= horizon {
			res.Horizon = true
			s.abortAll()
			break
		}
		p := PointInfo{}
		// canonical order
		for i, id := range en {
			if id == s.running {
				p.RunningStillEnabled = true
				en[0], en[i] = en[i], en[0]
				// keep the rest ascending
				rest := en[1:]
				for a := 1; a < len(rest); a++ {
					for b := a; b > 0 && rest[b] < rest[b-1]; b-- {
						rest[b], rest[b-1] = rest[b-1], rest[b]
					}
				}
				break
			}
		}
		p.Enabled = en
		for _, id := range en {
			p.Kinds = append(p.Kinds, s.threads[id].kind)
			p.Labels = append(p.Labels, s.threads[id].label)
		}
		c := choose(len(res.Points), &p)
		if c < 0 || c >= len(en) {
			s.abortAll()
			panic(fmt.Sprintf("vsched: choice %d out of range at point %d (enabled %v)", c, len(res.Points), en))
		}
		p.Chosen = c
		res.Points = append(res.Points, p)
		t := s.threads[en[c]]
		s.running = t.id
		t.wake <- true
		<-s.yield
	}
	for _, t := range s.threads {
		if t.panicV != nil {
			res.Panics[t.id] = fmt.Sprintf("%v\n%s", t.panicV, t.stack)
		}
	}
	res.IOUnderLock = s.ioUnderLock
	return res
}

// abortAll unwinds every unfinished thread (their deferred unlocks run with
// aborting set so the shims stay quiet).
func (s *Sched) abortAll() {
	s.aborting = true
	for _, t := range s.threads {
		if t.done {
			continue
		}
		s.running = t.id
		t.wake <- false
		<-s.yield
	}
	s.running = -1
}
