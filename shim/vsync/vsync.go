// Package sync (import path .../zverif/vsync) replaces the standard sync
// package inside the instrumented repository packages. Without an active
// scheduler every type behaves exactly like the standard one (sequential
// engines, free-running -race pass). Under vsched the mutexes become modelled
// objects whose acquisition is a scheduling point.
package sync

import (
	stdsync "sync"

	"github.com/johannesboyne/gofakes3/zverif/vsched"
)

type (
	Locker    = stdsync.Locker
	Once      = stdsync.Once
	WaitGroup = stdsync.WaitGroup
	Pool      = stdsync.Pool
	Map       = stdsync.Map
	Cond      = stdsync.Cond
)

func NewCond(l Locker) *Cond { return stdsync.NewCond(l) }

// Mutex is a drop-in replacement for sync.Mutex.
type Mutex struct {
	mu    stdsync.Mutex
	held  bool
	owner int
}

func (m *Mutex) Lock() {
	if s := vsched.Cur(); s != nil {
		if s.Aborting() {
			return
		}
		s.Point(vsched.KLock, "", func() bool { return !m.held })
		if s.Aborting() {
			return
		}
		m.held = true
		m.owner = s.Self()
		s.LockAcquired()
		return
	}
	m.mu.Lock()
}

func (m *Mutex) TryLock() bool {
	if s := vsched.Cur(); s != nil {
		if s.Aborting() {
			return true
		}
		s.Point(vsched.KLock, "try", nil)
		if m.held {
			return false
		}
		m.held = true
		m.owner = s.Self()
		s.LockAcquired()
		return true
	}
	return m.mu.TryLock()
}

func (m *Mutex) Unlock() {
	if s := vsched.Cur(); s != nil {
		if s.Aborting() {
			return
		}
		if !m.held {
			panic("vsync: unlock of unlocked mutex")
		}
		m.held = false
		s.LockReleased()
		return
	}
	m.mu.Unlock()
}

// RWMutex is a drop-in replacement for sync.RWMutex with Go's writer
// preference: a writer that has announced itself blocks new readers.
type RWMutex struct {
	mu       stdsync.RWMutex
	writer   bool
	readers  int
	pendingW int
}

func (m *RWMutex) Lock() {
	if s := vsched.Cur(); s != nil {
		if s.Aborting() {
			return
		}
		s.Point(vsched.KWAnnounce, "", nil)
		if s.Aborting() {
			return
		}
		m.pendingW++
		s.Point(vsched.KLock, "", func() bool { return !m.writer && m.readers == 0 })
		if s.Aborting() {
			return
		}
		m.pendingW--
		m.writer = true
		s.LockAcquired()
		return
	}
	m.mu.Lock()
}

func (m *RWMutex) Unlock() {
	if s := vsched.Cur(); s != nil {
		if s.Aborting() {
			return
		}
		if !m.writer {
			panic("vsync: unlock of unlocked RWMutex")
		}
		m.writer = false
		s.LockReleased()
		return
	}
	m.mu.Unlock()
}

func (m *RWMutex) RLock() {
	if s := vsched.Cur(); s != nil {
		if s.Aborting() {
			return
		}
		s.Point(vsched.KRLock, "", func() bool { return !m.writer && m.pendingW == 0 })
		if s.Aborting() {
			return
		}
		m.readers++
		s.LockAcquired()
		return
	}
	m.mu.RLock()
}

func (m *RWMutex) RUnlock() {
	if s := vsched.Cur(); s != nil {
		if s.Aborting() {
			return
		}
		if m.readers <= 0 {
			panic("vsync: RUnlock of unlocked RWMutex")
		}
		m.readers--
		s.LockReleased()
		return
	}
	m.mu.RUnlock()
}

func (m *RWMutex) TryLock() bool  { return m.mu.TryLock() }
func (m *RWMutex) TryRLock() bool { return m.mu.TryRLock() }

func (m *RWMutex) RLocker() Locker { return (*rlocker)(m) }

type rlocker RWMutex

func (r *rlocker) Lock()   { (*RWMutex)(r).RLock() }
func (r *rlocker) Unlock() { (*RWMutex)(r).RUnlock() }
