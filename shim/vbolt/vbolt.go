// Package vbolt wraps go.etcd.io/bbolt for the instrumented s3bolt package:
// View and Update become scheduling points (one bolt transaction is one atomic
// step); everything else is the real bbolt.
package vbolt

import (
	"os"

	"github.com/johannesboyne/gofakes3/zverif/vsched"
	bbolt "go.etcd.io/bbolt"
)

type (
	Tx          = bbolt.Tx
	Bucket      = bbolt.Bucket
	Cursor      = bbolt.Cursor
	Options     = bbolt.Options
	Stats       = bbolt.Stats
	BucketStats = bbolt.BucketStats
	TxStats     = bbolt.TxStats
	Info        = bbolt.Info
)

var (
	ErrBucketNotFound = bbolt.ErrBucketNotFound
	ErrBucketExists   = bbolt.ErrBucketExists
	ErrKeyRequired    = bbolt.ErrKeyRequired
	ErrTxNotWritable  = bbolt.ErrTxNotWritable
	ErrTxClosed       = bbolt.ErrTxClosed
	DefaultOptions    = bbolt.DefaultOptions
)

// DB embeds the real database; only View/Update/Batch are intercepted.
type DB struct{ *bbolt.DB }

func Open(path string, mode os.FileMode, o *Options) (*DB, error) {
	db, err := bbolt.Open(path, mode, o)
	if err != nil {
		return nil, err
	}
	return &DB{db}, nil
}

func Wrap(db *bbolt.DB) *DB { return &DB{db} }

func (d *DB) View(fn func(*Tx) error) error {
	if s := vsched.Cur(); s != nil && !s.Aborting() {
		s.Point(vsched.KBoltView, "", nil)
		s.AtomicBegin()
		defer s.AtomicEnd()
	}
	return d.DB.View(fn)
}

func (d *DB) Update(fn func(*Tx) error) error {
	if s := vsched.Cur(); s != nil && !s.Aborting() {
		s.Point(vsched.KBoltUpdate, "", nil)
		s.AtomicBegin()
		defer s.AtomicEnd()
	}
	return d.DB.Update(fn)
}

func (d *DB) Batch(fn func(*Tx) error) error { return d.Update(fn) }
