package gofakes3

import "io"

// VerifNewChunkedReader exposes the unexported aws-chunked decoder to the
// verification harness (overlay-only file; not part of the repository).
func VerifNewChunkedReader(r io.Reader) io.Reader { return newChunkedReader(r) }
