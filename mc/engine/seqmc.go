package engine

import (
	"crypto/sha1"
	"encoding/hex"
	"fmt"
	"os"
	"runtime"
	"sort"
	"sync"
)

// Op is one operation of a property's alphabet.
type Op interface{ String() string }

// Sys is a fresh instance of (real implementation + reference model). The
// engine replays histories on fresh instances; a Sys is never cloned.
type Sys interface {
	// Ops returns the alphabet enabled in the current state (deterministic
	// function of the history so far; ordered simplest first).
	Ops() []Op
	// Apply runs op on the implementation and the model and compares them.
	// obs is a rendering of what the implementation answered (replay
	// determinism is checked on it).
	Apply(op Op) (obs string, v *Violation)
	// Check evaluates the state predicates of the property in the current state.
	// evals is the number of oracle evaluations it made.
	Check() (vs []*Violation, evals int64)
	// Key is the canonical key of the implementation state.
	Key() string
	Close()
}

type SeqSpec struct {
	Name      string
	World     string
	New       func() (Sys, error)
	MaxDepth  int // 0 = run to closure
	MaxStates int // cap (0 = none)
	NoCheck0  bool
}

type seqState struct {
	hist    []int
	histStr []string
	obsHash string
}

func chain(prev, obs string) string {
	h := sha1.Sum([]byte(prev + "\x00" + obs))
	return hex.EncodeToString(h[:8])
}

// HarnessError aborts the run: never a property verdict.
func HarnessError(format string, a ...interface{}) {
	fmt.Printf("HARNESS-ERROR "+format+"\n", a...)
	os.Exit(2)
}

func replaySeq(spec *SeqSpec, st *seqState) Sys {
	sys, err := spec.New()
	if err != nil {
		HarnessError("%s: cannot build world: %v", spec.Name, err)
	}
	h := ""
	for i, idx := range st.hist {
		ops := sys.Ops()
		if idx >= len(ops) {
			HarnessError("nondeterminism: %s history %v: op index %d out of range (%d ops) at step %d", spec.Name, st.histStr, idx, len(ops), i)
		}
		if ops[idx].String() != st.histStr[i] {
			HarnessError("nondeterminism: %s history %v: op %d is %q on replay", spec.Name, st.histStr, i, ops[idx].String())
		}
		obs, v := sys.Apply(ops[idx])
		if v != nil {
			HarnessError("nondeterminism: %s history %v: step %d violates on replay only: %s", spec.Name, st.histStr, i, v.Msg)
		}
		h = chain(h, obs)
	}
	if h != st.obsHash {
		HarnessError("nondeterminism: %s history %v: observations differ on replay", spec.Name, st.histStr)
	}
	return sys
}

// replayOne re-executes the history of a stored violation without the explorer.
func replayOne(c *Ctx, spec SeqSpec, v *Violation) {
	sys, err := spec.New()
	if err != nil {
		HarnessError("%s: %v", spec.Name, err)
	}
	defer sys.Close()
	fmt.Printf("REPLAY %s (%d steps)\n", spec.Name, len(v.OpIdx))
	for i, idx := range v.OpIdx {
		ops := sys.Ops()
		if idx >= len(ops) {
			fmt.Printf("  step %d: op index %d not available (%d ops): the tree behaves differently now\n", i, idx, len(ops))
			return
		}
		obs, sv := sys.Apply(ops[idx])
		fmt.Printf("  step %d: %s => %s\n", i, ops[idx], obs)
		if sv != nil {
			fmt.Printf("  STEP VIOLATION %s: %s\n", sv.Sig, sv.Msg)
			sv.World, sv.Spec, sv.History, sv.OpIdx = spec.World, spec.Name, v.History, v.OpIdx
			c.Report(sv)
			return
		}
	}
	vs, _ := sys.Check()
	for _, cv := range vs {
		fmt.Printf("  STATE VIOLATION %s: %s\n", cv.Sig, cv.Msg)
		cv.World, cv.Spec, cv.History, cv.OpIdx = spec.World, spec.Name, v.History, v.OpIdx
		c.Report(cv)
		return
	}
	fmt.Println("  no violation on replay")
}

// RunSeq explores spec breadth first, level by level, sharded over all cores.
func RunSeq(c *Ctx, spec SeqSpec) {
	if c.Replay != nil {
		if c.Replay.Spec == spec.Name {
			replayOne(c, spec, c.Replay)
		}
		return
	}
	c.BeginSpec()
	seen := map[string]struct{}{}
	root := &seqState{}
	{
		sys := replaySeq(&spec, root)
		seen[sys.Key()] = struct{}{}
		if !spec.NoCheck0 {
			vs, ev := sys.Check()
			c.Add(0, 0, 0, ev)
			for _, v := range vs {
				v.World, v.Spec = spec.World, spec.Name
				c.Report(v)
			}
		}
		sys.Close()
	}
	c.Add(1, 0, 0, 0)
	c.Count(spec.World, "states", 1)
	level := []*seqState{root}
	depth := 0
	closed := false
	capped := false
	type cand struct {
		st  *seqState
		key string
		bad bool
	}
	for len(level) > 0 {
		if spec.MaxDepth > 0 && depth >= spec.MaxDepth {
			break
		}
		if c.Expired() {
			c.Cap(fmt.Sprintf("%s: time budget hit at depth %d (levels below fully covered)", spec.Name, depth))
			capped = true
			break
		}
		if c.TooMany() {
			break
		}
		var mu sync.Mutex
		claimed := map[string]*cand{}
		var trans int64
		jobs := make(chan *seqState, len(level))
		for _, s := range level {
			jobs <- s
		}
		close(jobs)
		var wg sync.WaitGroup
		nw := runtime.NumCPU()
		if nw > len(level) {
			nw = len(level)
		}
		for wi := 0; wi < nw; wi++ {
			wg.Add(1)
			go func() {
				defer wg.Done()
				for st := range jobs {
					if c.Expired() {
						continue
					}
					sys := replaySeq(&spec, st)
					n := len(sys.Ops())
					for oi := 0; oi < n; oi++ {
						if oi > 0 {
							sys = replaySeq(&spec, st)
						}
						ops := sys.Ops()
						op := ops[oi]
						obs, v := sys.Apply(op)
						mu.Lock()
						trans++
						mu.Unlock()
						nh := append(append([]int{}, st.hist...), oi)
						nhs := append(append([]string{}, st.histStr...), op.String())
						if v != nil && v.Sig == "FOREIGN" {
							// divergence that belongs to another property's statement (DESIGN B.2)
							mu.Lock()
							c.Foreign++
							mu.Unlock()
							sys.Close()
							continue
						}
						if v != nil {
							v.World, v.Spec, v.History, v.OpIdx = spec.World, spec.Name, nhs, nh
							if c.Report(v) {
								mu.Lock()
								c.Pruned++
								mu.Unlock()
							}
							sys.Close()
							continue
						}
						key := sys.Key()
						if _, ok := seen[key]; ok {
							sys.Close()
							continue
						}
						ns := &seqState{hist: nh, histStr: nhs, obsHash: chain(st.obsHash, obs)}
						mu.Lock()
						old, dup := claimed[key]
						if !dup {
							claimed[key] = &cand{st: ns, key: key}
						} else if lessHist(nh, old.st.hist) {
							old.st = ns
						}
						mu.Unlock()
						if !dup {
							vs, ev := sys.Check()
							c.Add(0, 0, 0, ev)
							// one defect per state: report the first predicate that fails and do
							// not explore successors of a state the model no longer describes
							if len(vs) > 0 {
								cv := vs[0]
								cv.World, cv.Spec, cv.History, cv.OpIdx = spec.World, spec.Name, nhs, nh
								c.Report(cv)
								mu.Lock()
								claimed[key].bad = true
								c.Pruned++
								mu.Unlock()
							}
						}
						sys.Close()
					}
					if n == 0 {
						sys.Close()
					}
				}
			}()
		}
		wg.Wait()
		c.Add(0, trans, trans, 0)
		c.Count(spec.World, "transitions", trans)
		var next []*seqState
		for k, cd := range claimed {
			seen[k] = struct{}{}
			c.Distinct(spec.Name + ":" + k)
			if !cd.bad {
				next = append(next, cd.st)
			}
		}
		sort.Slice(next, func(i, j int) bool { return lessHist(next[i].hist, next[j].hist) })
		c.Add(int64(len(claimed)), 0, 0, 0)
		c.Count(spec.World, "states", int64(len(claimed)))
		if len(next) > 0 {
			c.AddSample(map[string]interface{}{"spec": spec.Name, "history": next[len(next)/2].histStr})
		}
		depth++
		level = next
		if spec.MaxStates > 0 && len(seen) > spec.MaxStates {
			c.Cap(fmt.Sprintf("%s: state cap %d hit at depth %d", spec.Name, spec.MaxStates, depth))
			capped = true
			break
		}
		if len(level) == 0 {
			closed = true
		}
	}
	c.mu.Lock()
	if b, ok := c.Extra["closed_specs"].(map[string]interface{}); ok {
		b[spec.Name] = map[string]interface{}{"closed": closed, "depth": depth, "states": len(seen)}
	} else {
		c.Extra["closed_specs"] = map[string]interface{}{spec.Name: map[string]interface{}{"closed": closed, "depth": depth, "states": len(seen)}}
	}
	c.mu.Unlock()
	_ = capped
}

func lessHist(a, b []int) bool {
	if len(a) != len(b) {
		return len(a) < len(b)
	}
	for i := range a {
		if a[i] != b[i] {
			return a[i] < b[i]
		}
	}
	return false
}
