// Package engine holds the exploration engines (seqmc BFS, input enumeration
// helpers, schedmc DFS, crash image enumeration) and the run context that
// collects coverage, violations, known findings and writes the evidence file.
package engine

import (
	"crypto/sha1"
	"encoding/hex"
	"encoding/json"
	"fmt"
	"os"
	"path/filepath"
	"sort"
	"strings"
	"sync"
	"time"
)

type Violation struct {
	Prop    string                 `json:"property"`
	Sig     string                 `json:"signature"`
	Msg     string                 `json:"message"`
	World   string                 `json:"world,omitempty"`
	Spec    string                 `json:"spec,omitempty"`
	History []string               `json:"history,omitempty"`
	OpIdx   []int                  `json:"op_indices,omitempty"`
	Detail  map[string]interface{} `json:"detail,omitempty"`
}

type KnownEntry struct {
	Property  string      `json:"property"`
	Signature string      `json:"signature"`
	Status    string      `json:"status"` // known | fixed
	Commit    string      `json:"commit,omitempty"`
	Text      string      `json:"text"`
	Witness   interface{} `json:"witness,omitempty"`
}

type Ctx struct {
	Prop  string
	Tier  string
	Seed  int
	Level string // model_checking | fault_enumeration
	Root  string // /verif

	mu          sync.Mutex
	known       map[string]KnownEntry
	violations  map[string]*Violation
	knownSeen   map[string]*Violation
	knownCount  map[string]int
	States      int64
	Transitions int64
	Traces      int64
	Evals       int64
	distinct    map[string]struct{}
	Samples     []interface{}
	Caps        []string
	Bounds      map[string]interface{}
	PerWorld    map[string]map[string]int64
	Assumptions []string
	Extra       map[string]interface{}
	Rule        string
	Exhaustive  bool
	Closed      bool
	Pruned      int64
	Foreign     int64
	start       time.Time
	Deadline    time.Time
	SpecBudget  time.Duration // per-search slice of the wall-clock cap (0 = none)
	specEnd     time.Time
	MaxViol     int
	Quiet       bool
	ReplayFile  string
	Replay      *Violation
}

func NewCtx(root, prop, tier string, seed int) *Ctx {
	c := &Ctx{Prop: prop, Tier: tier, Seed: seed, Root: root, Level: "model_checking",
		known: map[string]KnownEntry{}, violations: map[string]*Violation{}, knownSeen: map[string]*Violation{},
		knownCount: map[string]int{}, distinct: map[string]struct{}{}, Bounds: map[string]interface{}{},
		PerWorld: map[string]map[string]int64{}, Extra: map[string]interface{}{}, start: time.Now(), Exhaustive: true, MaxViol: 12}
	b, err := os.ReadFile(filepath.Join(root, "known_findings.json"))
	if err == nil {
		var list []KnownEntry
		if err := json.Unmarshal(b, &list); err != nil {
			fmt.Fprintln(os.Stderr, "HARNESS-ERROR known_findings.json:", err)
			os.Exit(2)
		}
		for _, e := range list {
			if e.Property == prop && e.Status == "known" {
				c.known[e.Signature] = e
			}
		}
	}
	return c
}

// IsKnown reports whether sig is a listed known finding of this property.
func (c *Ctx) IsKnown(sig string) bool {
	_, ok := c.known[sig]
	return ok
}

// Report records a violation. It returns true when the signature is a known
// finding (the caller prunes the successor and carries on).
func (c *Ctx) Report(v *Violation) bool {
	v.Prop = c.Prop
	c.mu.Lock()
	defer c.mu.Unlock()
	if _, ok := c.known[v.Sig]; ok {
		c.knownCount[v.Sig]++
		if old, ok := c.knownSeen[v.Sig]; !ok || shorter(v, old) {
			c.knownSeen[v.Sig] = v
		}
		return true
	}
	if old, ok := c.violations[v.Sig]; !ok || shorter(v, old) {
		c.violations[v.Sig] = v
	}
	return false
}

func shorter(a, b *Violation) bool {
	if len(a.History) != len(b.History) {
		return len(a.History) < len(b.History)
	}
	return strings.Join(a.History, "|")+a.World < strings.Join(b.History, "|")+b.World
}

// TooMany reports whether enough distinct unknown violations were collected to stop.
func (c *Ctx) TooMany() bool {
	c.mu.Lock()
	defer c.mu.Unlock()
	return len(c.violations) >= c.MaxViol
}

func (c *Ctx) NumViolations() int {
	c.mu.Lock()
	defer c.mu.Unlock()
	return len(c.violations)
}

func (c *Ctx) Distinct(key string) {
	c.mu.Lock()
	c.distinct[key] = struct{}{}
	c.mu.Unlock()
}

func (c *Ctx) AddSample(s interface{}) {
	c.mu.Lock()
	if len(c.Samples) < 6 {
		c.Samples = append(c.Samples, s)
	}
	c.mu.Unlock()
}

func (c *Ctx) Cap(s string) {
	c.mu.Lock()
	c.Caps = append(c.Caps, s)
	c.Exhaustive = false
	c.mu.Unlock()
}

func (c *Ctx) Count(world, what string, n int64) {
	c.mu.Lock()
	m := c.PerWorld[world]
	if m == nil {
		m = map[string]int64{}
		c.PerWorld[world] = m
	}
	m[what] += n
	c.mu.Unlock()
}

func (c *Ctx) Add(states, transitions, traces, evals int64) {
	c.mu.Lock()
	c.States += states
	c.Transitions += transitions
	c.Traces += traces
	c.Evals += evals
	c.mu.Unlock()
}

func (c *Ctx) Expired() bool {
	now := time.Now()
	if !c.specEnd.IsZero() && now.After(c.specEnd) {
		return true
	}
	return !c.Deadline.IsZero() && now.After(c.Deadline)
}

// BeginSpec starts the per-search time slice.
func (c *Ctx) BeginSpec() {
	c.specEnd = time.Time{}
	if c.SpecBudget > 0 {
		c.specEnd = time.Now().Add(c.SpecBudget)
	}
}

// Budget returns the wall-clock cap of the whole run.
func (c *Ctx) Budget() time.Duration { return c.Deadline.Sub(c.start) }

func sigFile(sig string) string {
	h := sha1.Sum([]byte(sig))
	return hex.EncodeToString(h[:5])
}

// Finish prints verdict lines, writes replay files and the evidence file and
// returns the process exit code.
func (c *Ctx) Finish() int {
	c.mu.Lock()
	defer c.mu.Unlock()
	var ksigs []string
	for s := range c.knownSeen {
		ksigs = append(ksigs, s)
	}
	sort.Strings(ksigs)
	for _, s := range ksigs {
		v := c.knownSeen[s]
		fmt.Printf("KNOWN-FINDING: property=%s %s — %s (witness: %s %v; %d occurrences)\n", c.Prop, s, c.known[s].Text, v.World, v.History, c.knownCount[s])
	}
	var vsigs []string
	for s := range c.violations {
		vsigs = append(vsigs, s)
	}
	sort.Strings(vsigs)
	os.MkdirAll(filepath.Join(c.Root, "replays"), 0o755)
	for _, s := range vsigs {
		v := c.violations[s]
		path := filepath.Join(c.Root, "replays", fmt.Sprintf("%s-%s.json", c.Prop, sigFile(s)))
		b, _ := json.MarshalIndent(v, "", " ")
		os.WriteFile(path, b, 0o644)
		fmt.Printf("VIOLATION property=%s replay=%s\n", c.Prop, path)
		fmt.Printf("  signature: %s\n  world: %s\n  history: %v\n  %s\n", v.Sig, v.World, v.History, v.Msg)
	}
	wall := time.Since(c.start).Seconds()
	cov := map[string]interface{}{
		"states": c.States, "transitions": c.Transitions, "traces_validated_against_impl": c.Traces,
		"evaluations": c.Evals, "distinct_nontrivial": len(c.distinct), "rule": c.Rule,
		"samples": c.Samples, "exhaustive": c.Exhaustive && len(c.Caps) == 0, "closed": c.Closed,
		"bounds": c.Bounds, "per_world": c.PerWorld, "caps_hit": c.Caps,
		"known_findings_reproduced": ksigs, "pruned_after_violation": c.Pruned, "pruned_foreign_divergence": c.Foreign,
	}
	for k, v := range c.Extra {
		cov[k] = v
	}
	if c.Samples == nil {
		cov["samples"] = []interface{}{}
	}
	ev := map[string]interface{}{
		"property_id": c.Prop, "tier": c.Tier, "seed": c.Seed, "level": c.Level,
		"coverage": cov, "assumptions": c.Assumptions, "wall_s": wall, "violations": len(c.violations),
	}
	if c.Replay != nil {
		// a replay is not a check run: leave the evidence file alone
		if len(c.violations) > 0 {
			return 1
		}
		return 0
	}
	os.MkdirAll(filepath.Join(c.Root, "evidence"), 0o755)
	b, _ := json.MarshalIndent(ev, "", " ")
	if err := os.WriteFile(filepath.Join(c.Root, "evidence", c.Prop+".json"), b, 0o644); err != nil {
		fmt.Fprintln(os.Stderr, "HARNESS-ERROR cannot write evidence:", err)
		return 2
	}
	fmt.Printf("%s %s: states=%d transitions=%d traces=%d evaluations=%d distinct=%d exhaustive=%v caps=%v known=%d violations=%d wall=%.1fs\n",
		c.Prop, c.Tier, c.States, c.Transitions, c.Traces, c.Evals, len(c.distinct), c.Exhaustive && len(c.Caps) == 0, c.Caps, len(ksigs), len(c.violations), wall)
	if len(c.violations) > 0 {
		return 1
	}
	return 0
}
