package engine

import (
	"fmt"
	"strings"

	"github.com/johannesboyne/gofakes3/zverif/vsched"
)

// Execution is the outcome of one complete schedule of a scenario.
type Execution struct {
	Choices []int
	Result  *vsched.Result
	Data    interface{} // scenario-specific observations (history etc.)
}

// SchedScenario describes a small concurrent harness: Run must build a fresh
// world, execute the thread bodies under the given chooser via vsched.Run and
// return the observations.
type SchedScenario struct {
	Name  string
	World string
	// Run executes one schedule. choose is handed to vsched.Run.
	Run func(choose func(i int, p *vsched.PointInfo) int) (*vsched.Result, interface{})
	// Check evaluates the oracle on one execution; returns a violation or nil.
	Check func(x *Execution) *Violation
	// Outcome returns a short rendering of the observable outcome (distinct outcomes are counted).
	Outcome func(x *Execution) string
}

type SchedStats struct {
	Executions int64
	Points     int64
	MaxPoints  int
	Outcomes   map[string]int64
	BoundDone  int
	Capped     bool
}

type schedExplorer struct {
	sc    *SchedScenario
	bound int
	stats *SchedStats
	maxEx int64
	viol  *Violation
	vx    *Execution
	seen  map[string]bool
}

func (e *schedExplorer) run(prefix []int) *Execution {
	var choices []int
	res, data := e.sc.Run(func(i int, p *vsched.PointInfo) int {
		c := 0
		if i < len(prefix) {
			c = prefix[i]
			if c >= len(p.Enabled) {
				HarnessError("schedmc %s: nondeterminism: replayed choice %d out of range at point %d (enabled %v, prefix %v)", e.sc.Name, c, i, p.Enabled, prefix)
			}
		}
		choices = append(choices, c)
		return c
	})
	if res.Horizon {
		HarnessError("schedmc %s: horizon hit (unexpected loop); choices %v", e.sc.Name, choices)
	}
	return &Execution{Choices: choices, Result: res, Data: data}
}

func preemptionsBefore(x *Execution, i int) int {
	n := 0
	for j := 0; j < i && j < len(x.Result.Points); j++ {
		p := x.Result.Points[j]
		if p.RunningStillEnabled && p.Chosen != 0 {
			n++
		}
	}
	return n
}

func (e *schedExplorer) explore(prefix []int) {
	if e.viol != nil || e.stats.Capped {
		return
	}
	if e.maxEx > 0 && e.stats.Executions >= e.maxEx {
		e.stats.Capped = true
		return
	}
	x := e.run(prefix)
	// only count/check executions whose preemption count equals... all executions within the bound
	key := fmt.Sprint(x.Choices)
	if !e.seen[key] {
		e.seen[key] = true
		e.stats.Executions++
		e.stats.Points += int64(len(x.Result.Points))
		if len(x.Result.Points) > e.stats.MaxPoints {
			e.stats.MaxPoints = len(x.Result.Points)
		}
		if e.sc.Outcome != nil {
			e.stats.Outcomes[e.sc.Outcome(x)]++
		}
		if v := e.sc.Check(x); v != nil {
			e.viol, e.vx = v, x
			return
		}
	}
	for i := len(prefix); i < len(x.Result.Points); i++ {
		p := x.Result.Points[i]
		cost := preemptionsBefore(x, i)
		if p.RunningStillEnabled {
			cost++
		}
		if cost > e.bound {
			continue
		}
		for alt := 1; alt < len(p.Enabled); alt++ {
			np := append(append([]int{}, x.Choices[:i]...), alt)
			e.explore(np)
			if e.viol != nil || e.stats.Capped {
				return
			}
		}
	}
}

// ExploreSched explores sc with iterative preemption bounding 0..maxBound. The
// first violation found (fewest preemptions) is confirmed by replaying its
// schedule 5 times.
func ExploreSched(sc *SchedScenario, maxBound int, maxExec int64) (*SchedStats, *Violation) {
	stats := &SchedStats{Outcomes: map[string]int64{}, BoundDone: -1}
	seen := map[string]bool{}
	for b := 0; b <= maxBound; b++ {
		e := &schedExplorer{sc: sc, bound: b, stats: stats, maxEx: maxExec, seen: seen}
		e.explore(nil)
		if e.viol != nil {
			// confirm determinism of the failure
			for k := 0; k < 5; k++ {
				r := e.run(e.vx.Choices)
				v2 := sc.Check(r)
				if v2 == nil || v2.Sig != e.viol.Sig {
					HarnessError("schedmc %s: violation %s does not reproduce on replay of schedule %v", sc.Name, e.viol.Sig, e.vx.Choices)
				}
			}
			e.viol.World = sc.World
			e.viol.Spec = sc.Name
			e.viol.OpIdx = e.vx.Choices
			e.viol.History = append(e.viol.History, "schedule="+RenderSchedule(e.vx))
			if e.viol.Detail == nil {
				e.viol.Detail = map[string]interface{}{}
			}
			e.viol.Detail["preemption_bound"] = b
			return stats, e.viol
		}
		if stats.Capped {
			break
		}
		stats.BoundDone = b
	}
	return stats, nil
}

// RenderSchedule prints the thread chosen and the kind of operation at each point.
func RenderSchedule(x *Execution) string {
	var p []string
	for _, pt := range x.Result.Points {
		p = append(p, fmt.Sprintf("T%d:%s", pt.Enabled[pt.Chosen], pt.Kinds[pt.Chosen]))
	}
	return strings.Join(p, " ")
}

// PreemptionSignature describes the minimal failing schedule by the kinds of
// operation at which a still-enabled thread was preempted and what ran next.
func PreemptionSignature(x *Execution) string {
	var p []string
	for _, pt := range x.Result.Points {
		if pt.RunningStillEnabled && pt.Chosen != 0 {
			p = append(p, fmt.Sprintf("preempt@%s>%s", kindLabel(pt, 0), kindLabel(pt, pt.Chosen)))
		}
	}
	if len(p) == 0 {
		return "no-preemption"
	}
	return strings.Join(p, ",")
}

func kindLabel(pt vsched.PointInfo, i int) string {
	if pt.Kinds[i] == vsched.KFs && pt.Labels[i] != "" {
		return pt.Labels[i]
	}
	return pt.Kinds[i].String()
}
