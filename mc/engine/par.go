package engine

import (
	"os"
	"runtime"
	"strconv"
	"sync"
)

// ParallelFor runs f(i) for i in [0,n) on all cores. Each worker gets its id
// so it can keep per-worker state (e.g. a world).
func ParallelFor(n int, f func(worker, i int)) {
	nw := runtime.NumCPU()
	if v, err := strconv.Atoi(os.Getenv("VERIF_WORKERS")); err == nil && v > 0 {
		nw = v
	}
	if nw > n {
		nw = n
	}
	if nw < 1 {
		nw = 1
	}
	var wg sync.WaitGroup
	next := make(chan int, 64)
	go func() {
		for i := 0; i < n; i++ {
			next <- i
		}
		close(next)
	}()
	for w := 0; w < nw; w++ {
		wg.Add(1)
		go func(w int) {
			defer wg.Done()
			for i := range next {
				f(w, i)
			}
		}(w)
	}
	wg.Wait()
}
