package drv

import (
	"bytes"
	"crypto/md5"
	"encoding/hex"
	"encoding/xml"
	"fmt"
	"io"
	"net/http"
	"net/url"
	"runtime/debug"
	"sort"
	"strconv"
	"strings"
	"sync/atomic"
	"time"
)

// Req is a hand-built request. Path is the decoded URL path exactly as the
// handler will see it in r.URL.Path.
type Req struct {
	RawTarget string // request target as sent on the wire (overrides Path); parsed like net/http does
	Method    string
	Path      string
	Query     string // raw query
	Host      string
	Header    [][2]string
	Body      []byte
	// BodyReader overrides Body (fault injection, fragmentation, scheduling points).
	BodyReader io.Reader
	// ContentLength: nil = len(Body); otherwise the declared value. NoLength omits it.
	DeclLen  *int64
	NoLength bool
	RawLen   string              // literal Content-Length header (non-numeric cases); r.ContentLength = -1
	Writer   http.ResponseWriter // optional custom response writer
}

func (r Req) String() string {
	s := r.Method + " " + r.Path
	if r.Query != "" {
		s += "?" + r.Query
	}
	if r.Host != "" {
		s += " host=" + r.Host
	}
	for _, h := range r.Header {
		s += fmt.Sprintf(" %s:%q", h[0], clip(h[1], 80))
	}
	if r.Body != nil {
		s += fmt.Sprintf(" body[%d]=%q", len(r.Body), clip(string(r.Body), 60))
	}
	if r.DeclLen != nil {
		s += fmt.Sprintf(" decl-len=%d", *r.DeclLen)
	}
	if r.NoLength {
		s += " no-length"
	}
	if r.RawLen != "" {
		s += " raw-len=" + r.RawLen
	}
	return s
}

func clip(s string, n int) string {
	if len(s) > n {
		return s[:n] + "…"
	}
	return s
}

type Resp struct {
	Status int
	Header http.Header
	Body   []byte
	Panic  string // panic value + stack when the handler panicked
	Wrote  bool   // WriteHeader or Write was called
	// ClosedUnreadBody: the request carried "Expect: 100-continue" and the handler closed the
	// body, without ever having read from it, before it wrote any part of its answer.
	// net/http's Close drains up to 256 KiB of such a body from the connection without
	// sending "100 Continue": the client, which waits for exactly that or for a final
	// status, and the handler wait for each other.
	ClosedUnreadBody bool
}

// expectBody stands for the body of a request sent with "Expect: 100-continue".
type expectBody struct {
	io.Reader
	left    int
	reads   int
	rec     *Recorder
	flagged bool
}

func (b *expectBody) Read(p []byte) (int, error) {
	b.reads++ // (the first Read makes net/http send "100 Continue": from then on the client sends)
	n, err := b.Reader.Read(p)
	b.left -= n
	return n, err
}

func (b *expectBody) Close() error {
	if b.reads == 0 && b.left > 0 && b.rec != nil && !b.rec.WroteHeader {
		b.flagged = true
	}
	return nil
}

// Recorder is a minimal ResponseWriter (httptest.ResponseRecorder semantics).
type Recorder struct {
	Code        int
	Hdr         http.Header
	Snap        http.Header
	Buf         bytes.Buffer
	WroteHeader bool
}

func NewRecorder() *Recorder { return &Recorder{Hdr: http.Header{}, Code: 200} }

func (r *Recorder) Header() http.Header { return r.Hdr }
func (r *Recorder) WriteHeader(code int) {
	if r.WroteHeader {
		return
	}
	r.WroteHeader = true
	r.Code = code
	r.Snap = r.Hdr.Clone()
}
func (r *Recorder) Write(p []byte) (int, error) {
	if !r.WroteHeader {
		r.WriteHeader(200)
	}
	return r.Buf.Write(p)
}

type bodyCloser struct{ io.Reader }

func (bodyCloser) Close() error { return nil }

// Build constructs the *http.Request for r.
func (r Req) Build() *http.Request {
	host := r.Host
	if host == "" {
		host = "s3.test"
	}
	hr := &http.Request{
		Method:     r.Method,
		URL:        &url.URL{Scheme: "http", Host: host, Path: r.Path, RawQuery: r.Query},
		Proto:      "HTTP/1.1",
		ProtoMajor: 1,
		ProtoMinor: 1,
		Header:     http.Header{},
		Host:       host,
	}
	if r.RawTarget != "" {
		// the request target as it is on the wire, parsed the way net/http's server
		// parses it (Path decoded, RawPath kept when the escaping is not the default one)
		if u, err := url.ParseRequestURI(r.RawTarget); err == nil {
			hr.URL.Path, hr.URL.RawPath = u.Path, u.RawPath
			if u.RawQuery != "" {
				hr.URL.RawQuery = u.RawQuery
			}
			hr.RequestURI = r.RawTarget
		}
	}
	if hr.RequestURI == "" {
		// net/http's server hands a handler the request target as the client sent it
		hr.RequestURI = hr.URL.RequestURI()
	}
	for _, h := range r.Header {
		hr.Header[http.CanonicalHeaderKey(h[0])] = append(hr.Header[http.CanonicalHeaderKey(h[0])], h[1])
	}
	var body io.Reader
	switch {
	case r.BodyReader != nil:
		body = r.BodyReader
	case r.Body != nil:
		body = bytes.NewReader(r.Body)
	}
	if body != nil {
		hr.Body = bodyCloser{body}
	} else {
		hr.Body = http.NoBody
	}
	switch {
	case r.RawLen != "":
		hr.Header.Set("Content-Length", r.RawLen)
		hr.ContentLength = -1
	case r.NoLength:
		hr.ContentLength = -1
	case r.DeclLen != nil:
		hr.ContentLength = *r.DeclLen
		hr.Header.Set("Content-Length", strconv.FormatInt(*r.DeclLen, 10))
	case r.Body != nil || r.Method == "PUT" || r.Method == "POST":
		hr.ContentLength = int64(len(r.Body))
		hr.Header.Set("Content-Length", strconv.Itoa(len(r.Body)))
	}
	return hr
}

// Do serves the request through the real handler. A panic is caught and
// reported in Resp.Panic (net/http would abort the connection).
func (w *World) Do(r Req) (resp Resp) {
	atomic.AddInt64(&w.Requests, 1)
	return Serve(w.H, w.Addr(r))
}

// HostBase is the virtual-host base used in host-bucket worlds.
const HostBase = "s3.test"

// Addr rewrites a path-style request without an explicit Host into
// virtual-host style when the world runs in host-bucket mode, so that drivers
// can be written path-style once.
func (w *World) Addr(r Req) Req {
	if r.Host != "" || (!w.Cfg.HostBucket && len(w.Cfg.HostBases) == 0) {
		return r
	}
	p := strings.TrimPrefix(r.Path, "/")
	if p == "" {
		return r
	}
	parts := strings.SplitN(p, "/", 2)
	r.Host = parts[0] + "." + HostBase
	if len(parts) == 2 {
		r.Path = "/" + parts[1]
	} else {
		r.Path = "/"
	}
	return r
}

func Serve(h http.Handler, r Req) (resp Resp) {
	hr := r.Build()
	var rec *Recorder
	var rw http.ResponseWriter
	if r.Writer != nil {
		rw = r.Writer
	} else {
		rec = NewRecorder()
		rw = rec
	}
	var eb *expectBody
	if rec != nil && r.BodyReader == nil && len(r.Body) > 0 && strings.EqualFold(hr.Header.Get("Expect"), "100-continue") {
		eb = &expectBody{Reader: bytes.NewReader(r.Body), left: len(r.Body), rec: rec}
		hr.Body = eb
	}
	done := make(chan string, 1)
	go func() {
		defer func() {
			if p := recover(); p != nil {
				done <- fmt.Sprintf("%v\n%s", p, debug.Stack())
				return
			}
			done <- ""
		}()
		h.ServeHTTP(rw, hr)
	}()
	select {
	case resp.Panic = <-done:
	case <-time.After(Watchdog):
		// the handler blocks or spins: net/http would never answer either
		return Resp{Status: 0, Header: http.Header{}, Panic: "HANG: handler did not return within " + Watchdog.String()}
	}
	if rec != nil {
		resp.Status = rec.Code
		resp.Header = rec.Snap
		if resp.Header == nil {
			resp.Header = rec.Hdr
		}
		resp.Body = rec.Buf.Bytes()
		resp.Wrote = rec.WroteHeader
		resp.ClosedUnreadBody = eb != nil && eb.flagged
		// net/http's server fills in a Content-Type guessed from the first 512 body
		// bytes when the handler set none (and no Content-Encoding): part of what a
		// client of the real server sees, so the recorder does the same
		if _, has := resp.Header["Content-Type"]; !has && hr.Method != "HEAD" && len(resp.Body) > 0 &&
			resp.Header.Get("Content-Encoding") == "" && resp.Header.Get("Transfer-Encoding") == "" {
			n := len(resp.Body)
			if n > 512 {
				n = 512
			}
			resp.Header = resp.Header.Clone()
			resp.Header.Set("Content-Type", http.DetectContentType(resp.Body[:n]))
		}
	}
	return resp
}

// ---- XML tree ---------------------------------------------------------

type Node struct {
	Name     string
	Text     string
	Children []*Node
}

func ParseXML(b []byte) (*Node, error) {
	d := xml.NewDecoder(bytes.NewReader(b))
	var stack []*Node
	var root *Node
	for {
		tok, err := d.Token()
		if err == io.EOF {
			break
		}
		if err != nil {
			return nil, err
		}
		switch t := tok.(type) {
		case xml.StartElement:
			n := &Node{Name: t.Name.Local}
			if len(stack) > 0 {
				p := stack[len(stack)-1]
				p.Children = append(p.Children, n)
			} else if root == nil {
				root = n
			} else {
				return nil, fmt.Errorf("multiple roots")
			}
			stack = append(stack, n)
		case xml.EndElement:
			if len(stack) == 0 {
				return nil, fmt.Errorf("unbalanced")
			}
			stack = stack[:len(stack)-1]
		case xml.CharData:
			if len(stack) > 0 {
				stack[len(stack)-1].Text += string(t)
			}
		}
	}
	if root == nil {
		return nil, fmt.Errorf("no root element")
	}
	if len(stack) != 0 {
		return nil, fmt.Errorf("unterminated")
	}
	return root, nil
}

func (n *Node) Child(name string) *Node {
	if n == nil {
		return nil
	}
	for _, c := range n.Children {
		if c.Name == name {
			return c
		}
	}
	return nil
}

func (n *Node) All(name string) []*Node {
	var out []*Node
	if n == nil {
		return nil
	}
	for _, c := range n.Children {
		if c.Name == name {
			out = append(out, c)
		}
	}
	return out
}

func (n *Node) T(name string) string {
	c := n.Child(name)
	if c == nil {
		return ""
	}
	return strings.TrimSpace(c.Text)
}

func (n *Node) Has(name string) bool { return n.Child(name) != nil }

// ErrCode extracts <Error><Code> from an error response ("" if none).
func (r Resp) ErrCode() string {
	if len(r.Body) == 0 {
		return ""
	}
	n, err := ParseXML(r.Body)
	if err != nil || n.Name != "Error" {
		return ""
	}
	return n.T("Code")
}

func (r Resp) XML() *Node {
	n, _ := ParseXML(r.Body)
	return n
}

// Short renders status + code for messages.
func (r Resp) Short() string {
	if r.Panic != "" {
		return "PANIC " + firstLine(r.Panic)
	}
	s := strconv.Itoa(r.Status)
	if c := r.ErrCode(); c != "" {
		s += " " + c
	}
	return s
}

func firstLine(s string) string {
	if i := strings.IndexByte(s, '\n'); i >= 0 {
		return s[:i]
	}
	return s
}

// Watchdog is the per-request deadline standing in for "never blocks" (normal latency is ~10 us).
var Watchdog = 20 * time.Second

// PanicFrame returns the top-most frame inside the repository from a panic stack.
func PanicFrame(stack string) string {
	if strings.HasPrefix(stack, "HANG:") {
		return "hang"
	}
	lines := strings.Split(stack, "\n")
	seenPanic := false
	for _, l := range lines {
		if strings.HasPrefix(l, "panic(") {
			seenPanic = true
			continue
		}
		if !seenPanic {
			continue
		}
		if strings.HasPrefix(l, "github.com/johannesboyne/gofakes3") {
			f := l
			if i := strings.LastIndex(f, "("); i > 0 {
				f = f[:i]
			}
			f = strings.TrimPrefix(f, "github.com/johannesboyne/gofakes3")
			f = strings.TrimPrefix(f, "/")
			f = strings.TrimPrefix(f, ".")
			return f
		}
	}
	return "unknown"
}

// ---- helpers ------------------------------------------------------------

func ETagOf(b []byte) string {
	s := md5.Sum(b)
	return `"` + hex.EncodeToString(s[:]) + `"`
}

func H(kv ...string) [][2]string {
	var out [][2]string
	for i := 0; i+1 < len(kv); i += 2 {
		out = append(out, [2]string{kv[i], kv[i+1]})
	}
	return out
}

func Q(kv ...string) string {
	var parts []string
	for i := 0; i+1 < len(kv); i += 2 {
		if kv[i+1] == "\x00" {
			parts = append(parts, url.QueryEscape(kv[i]))
		} else {
			parts = append(parts, url.QueryEscape(kv[i])+"="+url.QueryEscape(kv[i+1]))
		}
	}
	return strings.Join(parts, "&")
}

// MetaOf extracts the user-visible metadata headers from a response.
func MetaOf(h http.Header) map[string]string {
	out := map[string]string{}
	for k, v := range h {
		lk := strings.ToLower(k)
		if strings.HasPrefix(lk, "x-amz-meta-") || lk == "content-type" || lk == "content-encoding" || lk == "content-disposition" {
			out[lk] = strings.Join(v, ",")
		}
	}
	return out
}

func MetaString(m map[string]string) string {
	var ks []string
	for k := range m {
		ks = append(ks, k)
	}
	sort.Strings(ks)
	var sb strings.Builder
	for _, k := range ks {
		fmt.Fprintf(&sb, "%s=%q;", k, m[k])
	}
	return sb.String()
}
