package drv

import (
	"os"
	"sync"
	"syscall"
	"time"

	"github.com/spf13/afero"
)

// FaultPlan is shared by every FaultFs of one world: it numbers the
// file-system operations of the backend while armed and makes exactly one of
// them fail with EIO (the environment answer "the storage failed here").
type FaultPlan struct {
	mu     sync.Mutex
	armed  bool
	n      int    // operations seen while armed
	FailAt int    // index of the operation that fails (-1: none)
	Failed string // label of the operation that failed ("" if none did)
}

func NewFaultPlan() *FaultPlan { return &FaultPlan{FailAt: -1} }

// Arm starts counting from zero; failAt < 0 only counts.
func (p *FaultPlan) Arm(failAt int) {
	p.mu.Lock()
	p.armed, p.n, p.FailAt, p.Failed = true, 0, failAt, ""
	p.mu.Unlock()
}

// Disarm stops counting and failing and returns the number of operations seen.
func (p *FaultPlan) Disarm() int {
	p.mu.Lock()
	defer p.mu.Unlock()
	p.armed = false
	return p.n
}

func (p *FaultPlan) hit(label string) error {
	p.mu.Lock()
	defer p.mu.Unlock()
	if !p.armed {
		return nil
	}
	i := p.n
	p.n++
	if i == p.FailAt {
		p.Failed = label
		return &os.PathError{Op: label, Path: "(injected)", Err: syscall.EIO}
	}
	return nil
}

// FaultFs wraps an afero.Fs; every operation first asks the plan.
type FaultFs struct {
	afero.Fs
	P *FaultPlan
}

func (f *FaultFs) Create(name string) (afero.File, error) {
	if err := f.P.hit("create"); err != nil {
		return nil, err
	}
	fl, err := f.Fs.Create(name)
	if err != nil {
		return nil, err
	}
	return &faultFile{File: fl, p: f.P}, nil
}
func (f *FaultFs) Mkdir(name string, perm os.FileMode) error {
	if err := f.P.hit("mkdir"); err != nil {
		return err
	}
	return f.Fs.Mkdir(name, perm)
}
func (f *FaultFs) MkdirAll(name string, perm os.FileMode) error {
	if err := f.P.hit("mkdirall"); err != nil {
		return err
	}
	return f.Fs.MkdirAll(name, perm)
}
func (f *FaultFs) Open(name string) (afero.File, error) {
	if err := f.P.hit("open"); err != nil {
		return nil, err
	}
	fl, err := f.Fs.Open(name)
	if err != nil {
		return nil, err
	}
	return &faultFile{File: fl, p: f.P}, nil
}
func (f *FaultFs) OpenFile(name string, flag int, perm os.FileMode) (afero.File, error) {
	if err := f.P.hit("openfile"); err != nil {
		return nil, err
	}
	fl, err := f.Fs.OpenFile(name, flag, perm)
	if err != nil {
		return nil, err
	}
	return &faultFile{File: fl, p: f.P}, nil
}
func (f *FaultFs) Remove(name string) error {
	if err := f.P.hit("remove"); err != nil {
		return err
	}
	return f.Fs.Remove(name)
}
func (f *FaultFs) RemoveAll(name string) error {
	if err := f.P.hit("removeall"); err != nil {
		return err
	}
	return f.Fs.RemoveAll(name)
}
func (f *FaultFs) Rename(a, b string) error {
	if err := f.P.hit("rename"); err != nil {
		return err
	}
	return f.Fs.Rename(a, b)
}
func (f *FaultFs) Stat(name string) (os.FileInfo, error) {
	if err := f.P.hit("stat"); err != nil {
		return nil, err
	}
	return f.Fs.Stat(name)
}
func (f *FaultFs) Chtimes(name string, a, m time.Time) error { return f.Fs.Chtimes(name, a, m) }

type faultFile struct {
	afero.File
	p *FaultPlan
}

func (f *faultFile) Read(b []byte) (int, error) {
	if err := f.p.hit("file.read"); err != nil {
		return 0, err
	}
	return f.File.Read(b)
}
func (f *faultFile) ReadAt(b []byte, off int64) (int, error) {
	if err := f.p.hit("file.readat"); err != nil {
		return 0, err
	}
	return f.File.ReadAt(b, off)
}
func (f *faultFile) Write(b []byte) (int, error) {
	if err := f.p.hit("file.write"); err != nil {
		return 0, err
	}
	return f.File.Write(b)
}
func (f *faultFile) Readdir(n int) ([]os.FileInfo, error) {
	if err := f.p.hit("file.readdir"); err != nil {
		return nil, err
	}
	return f.File.Readdir(n)
}
func (f *faultFile) Readdirnames(n int) ([]string, error) {
	if err := f.p.hit("file.readdirnames"); err != nil {
		return nil, err
	}
	return f.File.Readdirnames(n)
}
func (f *faultFile) Stat() (os.FileInfo, error) {
	if err := f.p.hit("file.stat"); err != nil {
		return nil, err
	}
	return f.File.Stat()
}
func (f *faultFile) Seek(off int64, whence int) (int64, error) {
	if err := f.p.hit("file.seek"); err != nil {
		return 0, err
	}
	return f.File.Seek(off, whence)
}
func (f *faultFile) Close() error {
	// the handle is always released; the failure is only reported
	err := f.p.hit("file.close")
	cerr := f.File.Close()
	if err != nil {
		return err
	}
	return cerr
}
