// Package drv builds "worlds" (a real backend + the real GoFakeS3 handler with
// every source of nondeterminism owned by the harness) and drives them with
// hand-built HTTP requests through ServeHTTP.
package drv

import (
	"errors"
	"fmt"
	"io"
	"net/http"
	"os"
	"path/filepath"
	"sync/atomic"
	"time"

	"github.com/johannesboyne/gofakes3"
	"github.com/johannesboyne/gofakes3/backend/s3afero"
	"github.com/johannesboyne/gofakes3/backend/s3bolt"
	"github.com/johannesboyne/gofakes3/backend/s3mem"
	"github.com/johannesboyne/gofakes3/zverif/vbolt"
	"github.com/spf13/afero"
	bbolt "go.etcd.io/bbolt"
)

type Kind string

const (
	Mem       Kind = "mem"
	Bolt      Kind = "bolt"
	MultiMem  Kind = "multi-mem"
	MultiDir  Kind = "multi-dir"
	SingleMem Kind = "single-mem"
	SingleDir Kind = "single-dir"
)

var AllKinds = []Kind{Mem, Bolt, MultiMem, SingleMem, MultiDir, SingleDir}
var MemFsKinds = []Kind{Mem, Bolt, MultiMem, SingleMem}

func (k Kind) IsFs() bool     { return k == MultiMem || k == MultiDir || k == SingleMem || k == SingleDir }
func (k Kind) IsSingle() bool { return k == SingleMem || k == SingleDir }
func (k Kind) IsDir() bool    { return k == MultiDir || k == SingleDir }
func (k Kind) Persistent() bool {
	return k == Bolt || k == MultiDir || k == SingleDir
}

// SingleName is the one bucket of the single-bucket worlds.
const SingleName = "aaa"

type Config struct {
	Kind              Kind
	AutoBucket        bool
	HostBucket        bool
	HostBases         []string
	HostBasesFirst    []string // an earlier WithHostBucketBase(...) that the one for HostBases replaces
	HostBasesEmpty    bool     // WithHostBucketBase with an empty, non-nil list (configuration read from an empty value)
	HostBucketOffLast bool     // append WithHostBucket(false) after the bases (option order must not matter)
	NoVersioning      bool
	FailOnUnimplPage  bool
	NoIntegrity       bool
	TimeSkew          bool // keep the default 15 min request-time skew check
	MetaLimit         int
	BoltSync          bool                    // keep bbolt's fsyncs (crashmc); default NoSync for speed
	FsWrap            func(afero.Fs) afero.Fs // wraps the base fs handed to the backend (schedmc / crashmc)
	MetaFsWrap        func(afero.Fs) afero.Fs // wraps the metadata fs of single-bucket worlds
	PutFault          bool                    // wrap the backend so that PutObject can be made to fail (World.FailPuts)
	ReuseDir          string                  // open existing storage at this directory (crash images, reopen)
	KeepDir           bool                    // do not remove the storage directory on Close
	MemFs             afero.Fs                // reuse an existing MemMapFs (reopen on -mem worlds)
	MemMetaFs         afero.Fs
}

// Clock is the harness-owned time source (constant unless advanced).
type Clock struct{ t time.Time }

func (c *Clock) Now() time.Time                  { return c.t }
func (c *Clock) Since(t time.Time) time.Duration { return c.t.Sub(t) }
func (c *Clock) Advance(d time.Duration)         { c.t = c.t.Add(d) }

type World struct {
	Cfg     Config
	Backend gofakes3.Backend
	Faker   *gofakes3.GoFakeS3
	H       http.Handler
	Clock   *Clock

	Dir      string // scratch directory of persistent worlds
	BoltDB   *bbolt.DB
	BaseFs   afero.Fs // unwrapped base fs (raw dumps)
	MetaFs   afero.Fs
	Requests int64

	// FailPuts > 0 (only with Cfg.PutFault): the next FailPuts PutObject calls
	// fail with a storage error before anything is stored.
	FailPuts int
}

// faultBackend lets the harness decide the environment's answer to a store
// request: the wrapped backend's PutObject fails while World.FailPuts > 0.
// (Only the plain Backend interface is passed through, so a world with
// PutFault has no versioning.)
type faultBackend struct {
	gofakes3.Backend
	w *World
}

func (f *faultBackend) PutObject(bucket, key string, meta map[string]string, input io.Reader, size int64) (gofakes3.PutObjectResult, error) {
	if f.w.FailPuts > 0 {
		f.w.FailPuts--
		// like the bundled backends, whose PutObject merges the replaced object's metadata
		// into the map it was given before it writes anything - and then the write fails
		gofakes3.MergeMetadata(f.Backend, bucket, key, meta)
		return gofakes3.PutObjectResult{}, errors.New("injected storage fault: no space left on device")
	}
	return f.Backend.PutObject(bucket, key, meta, input, size)
}

var scratchRoot string
var scratchSeq int64

// SetScratch sets the directory under which persistent worlds are created.
func SetScratch(dir string) { scratchRoot = dir }
func Scratch() string       { return scratchRoot }

func newScratchDir() (string, error) {
	if scratchRoot == "" {
		return "", fmt.Errorf("drv: scratch root not set")
	}
	n := atomic.AddInt64(&scratchSeq, 1)
	d := filepath.Join(scratchRoot, fmt.Sprintf("p%d-w%d", os.Getpid(), n))
	return d, os.MkdirAll(d, 0o755)
}

func NewWorld(cfg Config) (*World, error) {
	w := &World{Cfg: cfg, Clock: &Clock{t: time.Date(2020, 1, 2, 3, 4, 5, 0, time.UTC)}}
	if cfg.Kind.Persistent() {
		if cfg.ReuseDir != "" {
			w.Dir = cfg.ReuseDir
		} else {
			d, err := newScratchDir()
			if err != nil {
				return nil, err
			}
			w.Dir = d
		}
	}
	if err := w.open(); err != nil {
		w.Close()
		return nil, err
	}
	return w, nil
}

func (w *World) open() error {
	cfg := w.Cfg
	switch cfg.Kind {
	case Mem:
		w.Backend = s3mem.New(s3mem.WithTimeSource(w.Clock), s3mem.WithVersionSeed(12345))
	case Bolt:
		opts := &bbolt.Options{Timeout: time.Second, NoSync: !cfg.BoltSync, NoFreelistSync: !cfg.BoltSync, NoGrowSync: !cfg.BoltSync}
		db, err := bbolt.Open(filepath.Join(w.Dir, "db.bolt"), 0o600, opts)
		if err != nil {
			return err
		}
		w.BoltDB = db
		w.Backend = s3bolt.New(vbolt.Wrap(db), s3bolt.WithTimeSource(w.Clock))
	case MultiMem, MultiDir:
		var base afero.Fs
		if cfg.Kind == MultiMem {
			if cfg.MemFs != nil {
				base = cfg.MemFs
			} else {
				base = afero.NewMemMapFs()
			}
		} else {
			base = afero.NewBasePathFs(afero.NewOsFs(), w.Dir)
		}
		w.BaseFs = base
		fs := base
		if cfg.FsWrap != nil {
			fs = cfg.FsWrap(base)
		}
		b, err := s3afero.MultiBucket(fs)
		if err != nil {
			return err
		}
		w.Backend = b
	case SingleMem, SingleDir:
		var base, meta afero.Fs
		if cfg.Kind == SingleMem {
			base, meta = cfg.MemFs, cfg.MemMetaFs
			if base == nil {
				base = afero.NewMemMapFs()
			}
			if meta == nil {
				meta = afero.NewMemMapFs()
			}
		} else {
			for _, sub := range []string{"data", "meta"} {
				if err := os.MkdirAll(filepath.Join(w.Dir, sub), 0o755); err != nil {
					return err
				}
			}
			base = afero.NewBasePathFs(afero.NewOsFs(), filepath.Join(w.Dir, "data"))
			meta = afero.NewBasePathFs(afero.NewOsFs(), filepath.Join(w.Dir, "meta"))
		}
		w.BaseFs, w.MetaFs = base, meta
		fs, mfs := base, meta
		if cfg.FsWrap != nil {
			fs = cfg.FsWrap(base)
		}
		if cfg.MetaFsWrap != nil {
			mfs = cfg.MetaFsWrap(meta)
		}
		b, err := s3afero.SingleBucket(SingleName, fs, mfs)
		if err != nil {
			return err
		}
		w.Backend = b
	default:
		return fmt.Errorf("drv: unknown world kind %q", cfg.Kind)
	}
	w.buildFaker()
	return nil
}

func skewLimit(cfg Config) time.Duration {
	if cfg.TimeSkew {
		return gofakes3.DefaultSkewLimit
	}
	return 0
}

func (w *World) buildFaker() {
	cfg := w.Cfg
	opts := []gofakes3.Option{
		gofakes3.WithTimeSource(w.Clock),
		gofakes3.WithTimeSkewLimit(skewLimit(cfg)),
		gofakes3.WithAutoBucket(cfg.AutoBucket),
		gofakes3.WithHostBucket(cfg.HostBucket),
		gofakes3.WithIntegrityCheck(!cfg.NoIntegrity),
	}
	if len(cfg.HostBasesFirst) > 0 {
		opts = append(opts, gofakes3.WithHostBucketBase(cfg.HostBasesFirst...))
	}
	if len(cfg.HostBases) > 0 {
		opts = append(opts, gofakes3.WithHostBucketBase(cfg.HostBases...))
	}
	if cfg.HostBasesEmpty {
		opts = append(opts, gofakes3.WithHostBucketBase([]string{}...))
	}
	if cfg.HostBucketOffLast {
		opts = append(opts, gofakes3.WithHostBucket(false))
	}
	if cfg.NoVersioning {
		opts = append(opts, gofakes3.WithoutVersioning())
	}
	if cfg.FailOnUnimplPage {
		opts = append(opts, gofakes3.WithUnimplementedPageError())
	}
	if cfg.MetaLimit != 0 {
		opts = append(opts, gofakes3.WithMetadataSizeLimit(cfg.MetaLimit))
	}
	be := w.Backend
	if cfg.PutFault {
		be = &faultBackend{Backend: be, w: w}
	}
	w.Faker = gofakes3.New(be, opts...)
	w.H = w.Faker.Server()
}

// Reopen closes the backend and constructs a new one (and a new front end,
// hence a new in-memory uploader) on the same storage. Only meaningful for
// persistent worlds and the MemMapFs worlds (same Fs object).
func (w *World) Reopen() error {
	if w.BoltDB != nil {
		if err := w.BoltDB.Close(); err != nil {
			return err
		}
		w.BoltDB = nil
	}
	if w.Cfg.Kind == MultiMem || w.Cfg.Kind == SingleMem {
		w.Cfg.MemFs, w.Cfg.MemMetaFs = w.BaseFs, w.MetaFs
	}
	return w.open()
}

func (w *World) Close() {
	if w.BoltDB != nil {
		w.BoltDB.Close()
		w.BoltDB = nil
	}
	if w.Dir != "" && !w.Cfg.KeepDir && w.Cfg.ReuseDir == "" {
		os.RemoveAll(w.Dir)
	}
}
