package drv

import "io"

// FragReader delivers data in pieces: a Read never crosses one of the cut
// points (ascending offsets). With EOFWithData the final piece is returned
// together with io.EOF. FailAt >= 0 makes the reader return Err after exactly
// FailAt bytes (fault injection).
type FragReader struct {
	Data        []byte
	Cuts        []int
	Every       int // additionally cut every N bytes (0 = off)
	EOFWithData bool
	FailAt      int
	Err         error
	OnRead      func() // optional hook (scheduling point)
	pos         int
	ci          int
}

func NewFrag(data []byte, cuts []int, every int, eofWithData bool) *FragReader {
	return &FragReader{Data: data, Cuts: cuts, Every: every, EOFWithData: eofWithData, FailAt: -1}
}

func (f *FragReader) Read(p []byte) (int, error) {
	if f.OnRead != nil {
		f.OnRead()
	}
	limit := len(f.Data)
	if f.FailAt >= 0 && f.FailAt < limit {
		limit = f.FailAt
	}
	if f.pos >= limit {
		if f.FailAt >= 0 && f.pos >= f.FailAt {
			return 0, f.Err
		}
		return 0, io.EOF
	}
	if len(p) == 0 {
		return 0, nil
	}
	end := limit
	for f.ci < len(f.Cuts) && f.Cuts[f.ci] <= f.pos {
		f.ci++
	}
	if f.ci < len(f.Cuts) && f.Cuts[f.ci] < end {
		end = f.Cuts[f.ci]
	}
	if f.Every > 0 {
		if e := (f.pos/f.Every + 1) * f.Every; e < end {
			end = e
		}
	}
	if end-f.pos > len(p) {
		end = f.pos + len(p)
	}
	n := copy(p, f.Data[f.pos:end])
	f.pos = end
	if f.pos >= limit {
		if f.FailAt >= 0 && f.FailAt <= len(f.Data) && f.pos >= f.FailAt && f.FailAt < len(f.Data) {
			return n, nil // the error comes with the next Read
		}
		if f.EOFWithData {
			return n, io.EOF
		}
	}
	return n, nil
}

// EncodeChunked frames payload as aws-chunked with the given chunk sizes
// (which must sum to len(payload)); a final zero chunk is appended.
func EncodeChunked(payload []byte, sizes []int) []byte {
	const sigv = "0123456789abcdef0123456789abcdef0123456789abcdef0123456789abcdef"
	var out []byte
	off := 0
	hex := func(n int) string {
		const d = "0123456789abcdef"
		if n == 0 {
			return "0"
		}
		s := ""
		for n > 0 {
			s = string(d[n%16]) + s
			n /= 16
		}
		return s
	}
	for _, sz := range sizes {
		out = append(out, []byte(hex(sz)+";chunk-signature="+sigv+"\r\n")...)
		out = append(out, payload[off:off+sz]...)
		out = append(out, '\r', '\n')
		off += sz
	}
	out = append(out, []byte("0;chunk-signature="+sigv+"\r\n\r\n")...)
	return out
}
