package drv

import (
	"os"
	"time"

	"github.com/johannesboyne/gofakes3/zverif/vsched"
	"github.com/spf13/afero"
)

// SchedFs wraps an afero.Fs so that the file-system operations that can
// conflict with a file handle being streamed outside the backend lock become
// scheduling points: mutations (Create, OpenFile for writing, Remove, Rename,
// File.Write, File.Truncate) and reads through an open handle (File.Read,
// ReadAt). Without an active scheduler it is a transparent wrapper.
type SchedFs struct{ afero.Fs }

func NewSchedFs(fs afero.Fs) afero.Fs { return &SchedFs{fs} }

func pt(label string) { vsched.Point(vsched.KFs, label, nil) }

func (s *SchedFs) Create(name string) (afero.File, error) {
	pt("Create")
	f, err := s.Fs.Create(name)
	if err != nil {
		return nil, err
	}
	return &schedFile{File: f, write: true}, nil
}

func (s *SchedFs) OpenFile(name string, flag int, perm os.FileMode) (afero.File, error) {
	w := flag&(os.O_WRONLY|os.O_RDWR|os.O_TRUNC|os.O_CREATE|os.O_APPEND) != 0
	if w {
		pt("OpenFile(w)")
	}
	f, err := s.Fs.OpenFile(name, flag, perm)
	if err != nil {
		return nil, err
	}
	return &schedFile{File: f, write: w}, nil
}

func (s *SchedFs) Open(name string) (afero.File, error) {
	f, err := s.Fs.Open(name)
	if err != nil {
		return nil, err
	}
	return &schedFile{File: f}, nil
}

func (s *SchedFs) Remove(name string) error {
	pt("Remove")
	return s.Fs.Remove(name)
}

func (s *SchedFs) RemoveAll(name string) error {
	pt("RemoveAll")
	return s.Fs.RemoveAll(name)
}

func (s *SchedFs) Rename(a, b string) error {
	pt("Rename")
	return s.Fs.Rename(a, b)
}

func (s *SchedFs) Chtimes(name string, a, m time.Time) error { return s.Fs.Chtimes(name, a, m) }

type schedFile struct {
	afero.File
	write bool
}

func (f *schedFile) Read(p []byte) (int, error) {
	pt("File.Read")
	return f.File.Read(p)
}

func (f *schedFile) ReadAt(p []byte, off int64) (int, error) {
	pt("File.ReadAt")
	return f.File.ReadAt(p, off)
}

func (f *schedFile) Write(p []byte) (int, error) {
	pt("File.Write")
	return f.File.Write(p)
}

func (f *schedFile) Truncate(n int64) error {
	pt("File.Truncate")
	return f.File.Truncate(n)
}

// SchedWriter is a response recorder whose body writes are scheduling points
// (the "slow reader": the client consumes the response in pieces).
type SchedWriter struct{ *Recorder }

func NewSchedWriter() *SchedWriter { return &SchedWriter{NewRecorder()} }

func (w *SchedWriter) Write(p []byte) (int, error) {
	vsched.Point(vsched.KRespWrite, "", nil)
	return w.Recorder.Write(p)
}

// RespOf converts the recorder into a Resp.
func (w *SchedWriter) Resp(panicText string) Resp {
	r := Resp{Status: w.Code, Header: w.Snap, Body: w.Buf.Bytes(), Panic: panicText, Wrote: w.WroteHeader}
	if r.Header == nil {
		r.Header = w.Hdr
	}
	return r
}
