package drv

import (
	"crypto/sha1"
	"encoding/hex"
	"fmt"
	"os"
	"path/filepath"
	"sort"
	"time"

	"github.com/spf13/afero"
)

// CrashRecorder captures the persistent state a kill -9 would leave behind:
// an image of the storage directory before every file-system mutation (and
// between the 4 KiB pieces of a larger write). Process-kill model: the OS
// survives, so the image is exactly the effect of the mutations issued so far.
type CrashRecorder struct {
	Root   string
	Label  int // index of the operation in flight
	Images []*TreeImage
	seen   map[string]bool
	Off    bool
}

type FileImg struct {
	Dir   bool
	Data  []byte
	MTime time.Time
}

type TreeImage struct {
	Label  int
	Reason string
	Files  map[string]FileImg
}

func NewCrashRecorder(root string) *CrashRecorder {
	return &CrashRecorder{Root: root, seen: map[string]bool{}}
}

func (r *CrashRecorder) Snap(reason string) {
	if r.Off {
		return
	}
	img := &TreeImage{Label: r.Label, Reason: reason, Files: map[string]FileImg{}}
	h := sha1.New()
	var paths []string
	filepath.Walk(r.Root, func(p string, info os.FileInfo, err error) error {
		if err != nil || p == r.Root {
			return nil
		}
		rel, _ := filepath.Rel(r.Root, p)
		if info.IsDir() {
			img.Files[rel] = FileImg{Dir: true}
		} else {
			b, _ := os.ReadFile(p)
			img.Files[rel] = FileImg{Data: b, MTime: info.ModTime()}
		}
		paths = append(paths, rel)
		return nil
	})
	sort.Strings(paths)
	for _, p := range paths {
		f := img.Files[p]
		fmt.Fprintf(h, "%s|%v|%d|%d|", p, f.Dir, len(f.Data), f.MTime.UnixNano())
		h.Write(f.Data)
	}
	key := fmt.Sprintf("%d|%s", r.Label, hex.EncodeToString(h.Sum(nil)))
	if r.seen[key] {
		return
	}
	r.seen[key] = true
	r.Images = append(r.Images, img)
}

// Restore materialises the image in dir (which must not exist).
func (img *TreeImage) Restore(dir string) error {
	if err := os.MkdirAll(dir, 0o755); err != nil {
		return err
	}
	var paths []string
	for p := range img.Files {
		paths = append(paths, p)
	}
	sort.Strings(paths)
	for _, p := range paths {
		f := img.Files[p]
		full := filepath.Join(dir, p)
		if f.Dir {
			if err := os.MkdirAll(full, 0o755); err != nil {
				return err
			}
			continue
		}
		if err := os.MkdirAll(filepath.Dir(full), 0o755); err != nil {
			return err
		}
		if err := os.WriteFile(full, f.Data, 0o644); err != nil {
			return err
		}
		if err := os.Chtimes(full, f.MTime, f.MTime); err != nil {
			return err
		}
	}
	return nil
}

// Wrap returns an afero.Fs that snapshots before every mutation.
func (r *CrashRecorder) Wrap(fs afero.Fs) afero.Fs { return &crashFs{Fs: fs, r: r} }

type crashFs struct {
	afero.Fs
	r *CrashRecorder
}

func (c *crashFs) Create(name string) (afero.File, error) {
	c.r.Snap("Create " + name)
	f, err := c.Fs.Create(name)
	if err != nil {
		return nil, err
	}
	return &crashFile{File: f, r: c.r, name: name}, nil
}

func (c *crashFs) OpenFile(name string, flag int, perm os.FileMode) (afero.File, error) {
	if flag&(os.O_WRONLY|os.O_RDWR|os.O_TRUNC|os.O_CREATE|os.O_APPEND) != 0 {
		c.r.Snap("OpenFile " + name)
	}
	f, err := c.Fs.OpenFile(name, flag, perm)
	if err != nil {
		return nil, err
	}
	return &crashFile{File: f, r: c.r, name: name}, nil
}

func (c *crashFs) Mkdir(name string, perm os.FileMode) error {
	c.r.Snap("Mkdir " + name)
	return c.Fs.Mkdir(name, perm)
}
func (c *crashFs) MkdirAll(name string, perm os.FileMode) error {
	c.r.Snap("MkdirAll " + name)
	return c.Fs.MkdirAll(name, perm)
}
func (c *crashFs) Remove(name string) error {
	c.r.Snap("Remove " + name)
	return c.Fs.Remove(name)
}
func (c *crashFs) RemoveAll(name string) error {
	c.r.Snap("RemoveAll " + name)
	return c.Fs.RemoveAll(name)
}
func (c *crashFs) Rename(a, b string) error {
	c.r.Snap("Rename " + a)
	return c.Fs.Rename(a, b)
}
func (c *crashFs) Chtimes(name string, a, m time.Time) error {
	c.r.Snap("Chtimes " + name)
	return c.Fs.Chtimes(name, a, m)
}

type crashFile struct {
	afero.File
	r    *CrashRecorder
	name string
}

func (f *crashFile) Write(p []byte) (int, error) {
	total := 0
	for len(p) > 0 {
		n := len(p)
		if n > 4096 {
			n = 4096
		}
		f.r.Snap("Write " + f.name)
		w, err := f.File.Write(p[:n])
		total += w
		if err != nil {
			return total, err
		}
		p = p[n:]
	}
	return total, nil
}

func (f *crashFile) WriteString(s string) (int, error) { return f.Write([]byte(s)) }

func (f *crashFile) Truncate(n int64) error {
	f.r.Snap("Truncate " + f.name)
	return f.File.Truncate(n)
}
