package drv

import (
	"crypto/sha1"
	"encoding/hex"
	"fmt"
	"os"
	"sort"
	"strconv"
	"strings"

	"github.com/spf13/afero"
	bbolt "go.etcd.io/bbolt"
)

type ListEntry struct {
	Key  string
	ETag string
	Size int64
}

type ListPage struct {
	Status      int
	Code        string
	Panic       string
	Entries     []ListEntry
	Prefixes    []string
	IsTruncated bool
	NextMarker  string
	NextToken   string
	KeyCount    int
	HasKeyCount bool
	MaxKeys     string
	Raw         Resp
}

func ParseList(r Resp) ListPage {
	p := ListPage{Status: r.Status, Panic: r.Panic, Raw: r}
	if r.Panic != "" {
		return p
	}
	if r.Status != 200 {
		p.Code = r.ErrCode()
		return p
	}
	n := r.XML()
	if n == nil || n.Name != "ListBucketResult" {
		p.Code = "UNPARSEABLE"
		return p
	}
	for _, c := range n.All("Contents") {
		sz, _ := strconv.ParseInt(c.T("Size"), 10, 64)
		p.Entries = append(p.Entries, ListEntry{Key: c.Child("Key").TextRaw(), ETag: c.T("ETag"), Size: sz})
	}
	for _, c := range n.All("CommonPrefixes") {
		p.Prefixes = append(p.Prefixes, c.Child("Prefix").TextRaw())
	}
	p.IsTruncated = n.T("IsTruncated") == "true"
	p.NextMarker = n.Child("NextMarker").TextRaw()
	p.NextToken = n.T("NextContinuationToken")
	if n.Has("KeyCount") {
		p.HasKeyCount = true
		p.KeyCount, _ = strconv.Atoi(n.T("KeyCount"))
	}
	p.MaxKeys = n.T("MaxKeys")
	return p
}

// TextRaw returns the element text without trimming (keys may contain spaces).
func (n *Node) TextRaw() string {
	if n == nil {
		return ""
	}
	return n.Text
}

func (w *World) ListBuckets() ([]string, Resp) {
	names, r := w.ListBucketsInOrder()
	names = append([]string{}, names...)
	sort.Strings(names)
	return names, r
}

// ListBucketsInOrder returns the bucket names in the order of the response.
func (w *World) ListBucketsInOrder() ([]string, Resp) {
	r := w.Do(Req{Method: "GET", Path: "/"})
	var names []string
	if n := r.XML(); n != nil && r.Status == 200 {
		if bs := n.Child("Buckets"); bs != nil {
			for _, b := range bs.All("Bucket") {
				names = append(names, b.T("Name"))
			}
		}
	}
	return names, r
}

func (w *World) List(bucket, query string) ListPage {
	return ParseList(w.Do(Req{Method: "GET", Path: "/" + bucket, Query: query}))
}

type ObjView struct {
	Status int
	Code   string
	Panic  string
	Body   []byte
	ETag   string
	Len    string
	Meta   map[string]string
	VerID  string
	DelMk  string
	Hdr    map[string][]string
}

func ViewOf(r Resp) ObjView {
	v := ObjView{Status: r.Status, Panic: r.Panic, Body: r.Body}
	if r.Panic != "" {
		return v
	}
	if r.Status >= 300 {
		v.Code = r.ErrCode()
	}
	if r.Header != nil {
		v.ETag = r.Header.Get("ETag")
		v.Len = r.Header.Get("Content-Length")
		v.Meta = MetaOf(r.Header)
		v.VerID = r.Header.Get("x-amz-version-id")
		v.DelMk = r.Header.Get("x-amz-delete-marker")
		v.Hdr = r.Header
	}
	return v
}

func (v ObjView) String() string {
	if v.Panic != "" {
		return "PANIC@" + PanicFrame(v.Panic)
	}
	if v.Status >= 300 {
		return fmt.Sprintf("%d %s", v.Status, v.Code)
	}
	return fmt.Sprintf("%d body=%s etag=%s len=%s meta=%s", v.Status, hashBytes(v.Body), v.ETag, v.Len, MetaString(v.Meta))
}

func hashBytes(b []byte) string {
	if len(b) <= 24 {
		return strconv.Quote(string(b))
	}
	s := sha1.Sum(b)
	return fmt.Sprintf("sha1:%s/%d", hex.EncodeToString(s[:6]), len(b))
}

func (w *World) Get(bucket, key string) ObjView {
	return ViewOf(w.Do(Req{Method: "GET", Path: "/" + bucket + "/" + key}))
}
func (w *World) Head(bucket, key string) ObjView {
	return ViewOf(w.Do(Req{Method: "HEAD", Path: "/" + bucket + "/" + key}))
}
func (w *World) GetVersion(bucket, key, ver string) ObjView {
	return ViewOf(w.Do(Req{Method: "GET", Path: "/" + bucket + "/" + key, Query: Q("versionId", ver)}))
}
func (w *World) HeadVersion(bucket, key, ver string) ObjView {
	return ViewOf(w.Do(Req{Method: "HEAD", Path: "/" + bucket + "/" + key, Query: Q("versionId", ver)}))
}

// ---- version listings ----------------------------------------------------

type VerEntry struct {
	Key      string
	ID       string
	IsLatest bool
	Marker   bool
	Size     int64
	ETag     string
}

type VerPage struct {
	Status      int
	Code        string
	Panic       string
	Entries     []VerEntry
	Prefixes    []string
	IsTruncated bool
	NextKey     string
	NextVer     string
	Raw         Resp
}

func ParseVersions(r Resp) VerPage {
	p := VerPage{Status: r.Status, Panic: r.Panic, Raw: r}
	if r.Panic != "" {
		return p
	}
	if r.Status != 200 {
		p.Code = r.ErrCode()
		return p
	}
	n := r.XML()
	if n == nil {
		p.Code = "UNPARSEABLE"
		return p
	}
	for _, c := range n.Children {
		switch c.Name {
		case "Version", "DeleteMarker":
			sz, _ := strconv.ParseInt(c.T("Size"), 10, 64)
			p.Entries = append(p.Entries, VerEntry{Key: c.Child("Key").TextRaw(), ID: c.T("VersionId"),
				IsLatest: c.T("IsLatest") == "true", Marker: c.Name == "DeleteMarker", Size: sz, ETag: c.T("ETag")})
		case "CommonPrefixes":
			p.Prefixes = append(p.Prefixes, c.Child("Prefix").TextRaw())
		}
	}
	p.IsTruncated = n.T("IsTruncated") == "true"
	p.NextKey = n.Child("NextKeyMarker").TextRaw()
	p.NextVer = n.T("NextVersionIdMarker")
	return p
}

func (w *World) ListVersions(bucket, query string) VerPage {
	q := "versions"
	if query != "" {
		q += "&" + query
	}
	return ParseVersions(w.Do(Req{Method: "GET", Path: "/" + bucket, Query: q}))
}

// ---- multipart listings ----------------------------------------------------

type UploadEntry struct{ Key, ID string }

type UploadsPage struct {
	Status      int
	Code        string
	Panic       string
	Uploads     []UploadEntry
	Prefixes    []string
	IsTruncated bool
	NextKey     string
	NextID      string
}

func ParseUploads(r Resp) UploadsPage {
	p := UploadsPage{Status: r.Status, Panic: r.Panic}
	if r.Panic != "" {
		return p
	}
	if r.Status != 200 {
		p.Code = r.ErrCode()
		return p
	}
	n := r.XML()
	if n == nil {
		p.Code = "UNPARSEABLE"
		return p
	}
	for _, c := range n.All("Upload") {
		p.Uploads = append(p.Uploads, UploadEntry{Key: c.Child("Key").TextRaw(), ID: c.T("UploadId")})
	}
	for _, c := range n.All("CommonPrefixes") {
		p.Prefixes = append(p.Prefixes, c.Child("Prefix").TextRaw())
	}
	p.IsTruncated = n.T("IsTruncated") == "true"
	p.NextKey = n.Child("NextKeyMarker").TextRaw()
	p.NextID = n.T("NextUploadIdMarker")
	return p
}

func (w *World) ListUploads(bucket, query string) UploadsPage {
	q := "uploads"
	if query != "" {
		q += "&" + query
	}
	return ParseUploads(w.Do(Req{Method: "GET", Path: "/" + bucket, Query: q}))
}

type PartEntry struct {
	N    int
	Size int64
	ETag string
}

type PartsPage struct {
	Status      int
	Code        string
	Panic       string
	Parts       []PartEntry
	IsTruncated bool
	NextMarker  int
	HasNext     bool
}

func ParseParts(r Resp) PartsPage {
	p := PartsPage{Status: r.Status, Panic: r.Panic}
	if r.Panic != "" {
		return p
	}
	if r.Status != 200 {
		p.Code = r.ErrCode()
		return p
	}
	n := r.XML()
	if n == nil {
		p.Code = "UNPARSEABLE"
		return p
	}
	for _, c := range n.All("Part") {
		pn, _ := strconv.Atoi(c.T("PartNumber"))
		sz, _ := strconv.ParseInt(c.T("Size"), 10, 64)
		p.Parts = append(p.Parts, PartEntry{N: pn, Size: sz, ETag: c.T("ETag")})
	}
	p.IsTruncated = n.T("IsTruncated") == "true"
	if n.Has("NextPartNumberMarker") {
		p.HasNext = true
		p.NextMarker, _ = strconv.Atoi(n.T("NextPartNumberMarker"))
	}
	return p
}

func (w *World) ListParts(bucket, key, id, query string) PartsPage {
	q := Q("uploadId", id)
	if query != "" {
		q += "&" + query
	}
	return ParseParts(w.Do(Req{Method: "GET", Path: "/" + bucket + "/" + key, Query: q}))
}

// ---- snapshots -------------------------------------------------------------

type SnapOpts struct {
	Versions bool     // include ListObjectVersions + per-version GET (mem)
	Uploads  bool     // include pending uploads + parts
	Buckets  []string // extra bucket names to probe even if not listed
	NoRaw    bool
}

// Snapshot renders the complete API-observable state (and the raw storage
// dump) as a canonical string. Version and upload ids are replaced by their
// rank so that histories that differ only in id values merge.
func (w *World) Snapshot(o SnapOpts) string {
	var sb strings.Builder
	names, lr := w.ListBuckets()
	if lr.Panic != "" || lr.Status != 200 {
		fmt.Fprintf(&sb, "LISTBUCKETS %s\n", lr.Short())
	}
	seen := map[string]bool{}
	all := append([]string{}, names...)
	for _, n := range names {
		seen[n] = true
	}
	for _, b := range o.Buckets {
		if !seen[b] {
			all = append(all, b)
			seen[b] = true
		}
	}
	idRank := newRanker()
	for _, b := range all {
		fmt.Fprintf(&sb, "BUCKET %s listed=%v\n", b, contains(names, b))
		lp := w.List(b, "")
		if lp.Status != 200 || lp.Panic != "" {
			fmt.Fprintf(&sb, " LIST %d %s %s\n", lp.Status, lp.Code, panicSig(lp.Panic))
		} else {
			for _, e := range lp.Entries {
				v := w.Get(b, e.Key)
				fmt.Fprintf(&sb, " OBJ %q list(etag=%s size=%d) get=%s\n", e.Key, e.ETag, e.Size, v.String())
			}
			for _, p := range lp.Prefixes {
				fmt.Fprintf(&sb, " CP %q\n", p)
			}
		}
		if o.Versions {
			vr := w.Do(Req{Method: "GET", Path: "/" + b, Query: "versioning"})
			st := ""
			if n := vr.XML(); n != nil {
				st = n.T("Status")
			}
			fmt.Fprintf(&sb, " VERSIONING %d %q\n", vr.Status, st)
			vp := w.ListVersions(b, "")
			if vp.Status != 200 || vp.Panic != "" {
				fmt.Fprintf(&sb, " VERSIONS %d %s %s\n", vp.Status, vp.Code, panicSig(vp.Panic))
			} else {
				for _, e := range vp.Entries {
					idRank.add(e.ID)
				}
				for _, e := range vp.Entries {
					g := ""
					if e.ID != "null" && e.ID != "" {
						g = w.GetVersion(b, e.Key, e.ID).String()
					}
					fmt.Fprintf(&sb, "  VER %q id=%s latest=%v marker=%v size=%d etag=%s get=%s\n", e.Key, idRank.rank(e.ID), e.IsLatest, e.Marker, e.Size, e.ETag, g)
				}
			}
		}
		if o.Uploads {
			up := w.ListUploads(b, "")
			if up.Status != 200 || up.Panic != "" {
				fmt.Fprintf(&sb, " UPLOADS %d %s %s\n", up.Status, up.Code, panicSig(up.Panic))
			} else {
				ur := newRanker()
				for _, u := range up.Uploads {
					ur.add(u.ID)
				}
				for _, u := range up.Uploads {
					pp := w.ListParts(b, u.Key, u.ID, "")
					fmt.Fprintf(&sb, "  UPLOAD %q id=%s parts=%d/%s:", u.Key, ur.rank(u.ID), pp.Status, pp.Code+panicSig(pp.Panic))
					for _, p := range pp.Parts {
						fmt.Fprintf(&sb, " %d/%d/%s", p.N, p.Size, p.ETag)
					}
					sb.WriteString("\n")
				}
			}
		}
	}
	if !o.NoRaw {
		sb.WriteString(w.RawDump())
	}
	return sb.String()
}

func panicSig(p string) string {
	if p == "" {
		return ""
	}
	return "PANIC@" + PanicFrame(p)
}

func contains(l []string, s string) bool {
	for _, x := range l {
		if x == s {
			return true
		}
	}
	return false
}

// ranker maps ids to their rank in creation order. Version ids start with a
// 30-digit counter and upload ids are decimal counters, so ordering by
// (length, string) is creation order for both.
type ranker struct{ ids []string }

func newRanker() *ranker { return &ranker{} }
func (r *ranker) add(id string) {
	if id == "" || id == "null" || contains(r.ids, id) {
		return
	}
	r.ids = append(r.ids, id)
	sort.Slice(r.ids, func(i, j int) bool {
		if len(r.ids[i]) != len(r.ids[j]) {
			return len(r.ids[i]) < len(r.ids[j])
		}
		return r.ids[i] < r.ids[j]
	})
}
func (r *ranker) rank(id string) string {
	for i, x := range r.ids {
		if x == id {
			return fmt.Sprintf("#%d", i)
		}
	}
	return id
}

// RawDump lists the persistent storage below the API: the afero trees (path,
// kind, content hash of object files; metadata files by path only because
// they embed timestamps) or the bolt buckets and keys.
func (w *World) RawDump() string {
	var sb strings.Builder
	dumpFs := func(tag string, fs afero.Fs, hashContent bool) {
		if fs == nil {
			return
		}
		var lines []string
		afero.Walk(fs, "", func(path string, info os.FileInfo, err error) error {
			if err != nil || info == nil {
				lines = append(lines, fmt.Sprintf("%s ERR %q %v", tag, path, err))
				return nil
			}
			if info.IsDir() {
				lines = append(lines, fmt.Sprintf("%s D %q", tag, path))
				return nil
			}
			isMeta := !hashContent || strings.HasPrefix(strings.TrimPrefix(path, "/"), "metadata")
			if isMeta {
				lines = append(lines, fmt.Sprintf("%s F %q", tag, path))
			} else {
				b, _ := afero.ReadFile(fs, path)
				lines = append(lines, fmt.Sprintf("%s F %q %s", tag, path, hashBytes(b)))
			}
			return nil
		})
		sort.Strings(lines)
		for _, l := range lines {
			sb.WriteString(l)
			sb.WriteString("\n")
		}
	}
	switch {
	case w.Cfg.Kind == MultiMem || w.Cfg.Kind == MultiDir:
		dumpFs("RAW", w.BaseFs, true)
	case w.Cfg.Kind.IsSingle():
		dumpFs("RAW", w.BaseFs, true)
		dumpFs("RAWMETA", w.MetaFs, false)
	case w.BoltDB != nil:
		w.BoltDB.View(func(tx *bbolt.Tx) error {
			return tx.ForEach(func(name []byte, b *bbolt.Bucket) error {
				fmt.Fprintf(&sb, "RAW B %q\n", name)
				return b.ForEach(func(k, v []byte) error {
					fmt.Fprintf(&sb, "RAW K %q %d\n", k, len(v))
					return nil
				})
			})
		})
	}
	return sb.String()
}

// KeyOf hashes a snapshot into a state key.
func KeyOf(s string) string {
	h := sha1.Sum([]byte(s))
	return hex.EncodeToString(h[:])
}
