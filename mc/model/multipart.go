package model

import (
	"crypto/md5"
	"encoding/hex"
	"fmt"
	"sort"
)

// A.4 multipart model.

type MPart struct {
	Body  []byte
	Stale []string // ETags of earlier uploads of this part number (overwritten)
}

type MUpload struct {
	ID    string
	Key   string
	Meta  map[string]string
	Parts map[int]*MPart
	Seq   int
}

type MPModel struct {
	Uploads []*MUpload // initiation order, open uploads only
	Closed  []string   // ids of completed / aborted uploads
	Objects map[string]*Obj
	seq     int
}

func NewMPModel() *MPModel { return &MPModel{Objects: map[string]*Obj{}} }

func (m *MPModel) Find(id string) *MUpload {
	for _, u := range m.Uploads {
		if u.ID == id {
			return u
		}
	}
	return nil
}

func (m *MPModel) Initiate(id, key string, meta map[string]string) *MUpload {
	m.seq++
	mm := map[string]string{}
	for k, v := range meta {
		mm[k] = v
	}
	u := &MUpload{ID: id, Key: key, Meta: mm, Parts: map[int]*MPart{}, Seq: m.seq}
	m.Uploads = append(m.Uploads, u)
	return u
}

func (m *MPModel) remove(id string) {
	for i, u := range m.Uploads {
		if u.ID == id {
			m.Uploads = append(append([]*MUpload{}, m.Uploads[:i]...), m.Uploads[i+1:]...)
			m.Closed = append(m.Closed, id)
			return
		}
	}
}

func PartETag(b []byte) string {
	s := md5.Sum(b)
	return `"` + hex.EncodeToString(s[:]) + `"`
}

// UploadPart: expectation for a part upload.
func (m *MPModel) UploadPart(id, key string, n int, body []byte) Exp {
	if n < 1 || n > 10000 {
		return Exp{400, "InvalidPart"}
	}
	if len(body) == 0 {
		return Exp{411, "MissingContentLength"}
	}
	u := m.Find(id)
	if u == nil || u.Key != key {
		return Exp{404, "NoSuchUpload"}
	}
	p := u.Parts[n]
	if p == nil {
		u.Parts[n] = &MPart{Body: append([]byte{}, body...)}
	} else {
		old := PartETag(p.Body)
		if old != PartETag(body) {
			p.Stale = append(p.Stale, old)
		}
		p.Body = append([]byte{}, body...)
	}
	return Exp{200, ""}
}

type CPart struct {
	N    int
	ETag string
}

// Complete returns the acceptable answers (more than one when several error
// codes apply) and, when valid, applies the completion.
func (m *MPModel) Complete(id, key string, list []CPart) (exps []Exp, body []byte, etag string) {
	u := m.Find(id)
	if u == nil || u.Key != key {
		return []Exp{{404, "NoSuchUpload"}}, nil, ""
	}
	order := true
	for i := 1; i < len(list); i++ {
		if list[i].N <= list[i-1].N {
			order = false
		}
	}
	parts := true
	for _, c := range list {
		p := u.Parts[c.N]
		if p == nil || PartETag(p.Body) != c.ETag {
			parts = false
		}
	}
	if !order {
		exps = append(exps, Exp{400, "InvalidPartOrder"})
	}
	if !parts {
		exps = append(exps, Exp{400, "InvalidPart"})
	}
	if len(exps) > 0 {
		return exps, nil, ""
	}
	h := md5.New()
	for _, c := range list {
		p := u.Parts[c.N]
		body = append(body, p.Body...)
		s := md5.Sum(p.Body)
		h.Write(s[:])
	}
	etag = fmt.Sprintf(`"%s-%d"`, hex.EncodeToString(h.Sum(nil)), len(list))
	m.Objects[key] = &Obj{Body: body, Meta: u.Meta}
	m.remove(id)
	return []Exp{{200, ""}}, body, etag
}

func (m *MPModel) Abort(id, key string) Exp {
	u := m.Find(id)
	if u == nil || u.Key != key {
		return Exp{404, "NoSuchUpload"}
	}
	m.remove(id)
	return Exp{204, ""}
}

// SortedUploads returns the open uploads ordered by key, then initiation.
func (m *MPModel) SortedUploads() []*MUpload {
	out := append([]*MUpload{}, m.Uploads...)
	sort.SliceStable(out, func(i, j int) bool {
		if out[i].Key != out[j].Key {
			return out[i].Key < out[j].Key
		}
		return out[i].Seq < out[j].Seq
	})
	return out
}

func (u *MUpload) PartNumbers() []int {
	var ns []int
	for n := range u.Parts {
		ns = append(ns, n)
	}
	sort.Ints(ns)
	return ns
}
