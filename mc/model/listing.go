package model

import (
	"sort"
	"strings"
)

// LEntry is one entry of a (grouped) listing: a key or a common prefix.
type LEntry struct {
	CP    bool
	Name  string // key, or the common prefix
	First string // first key of the group (== Name for keys)
	Last  string // last key of the group
}

// Group is the A.2 grouping oracle: keys (any order) filtered by prefix and
// grouped by the first delimiter after the prefix. Entries come in ascending
// byte order of the keys; a common prefix sits where its first key sits.
func Group(keys []string, prefix, delim string) []LEntry {
	ks := append([]string{}, keys...)
	sort.Strings(ks)
	var out []LEntry
	for _, k := range ks {
		if !strings.HasPrefix(k, prefix) {
			continue
		}
		rest := k[len(prefix):]
		if delim != "" {
			if i := strings.Index(rest, delim); i >= 0 {
				cp := prefix + rest[:i+len(delim)]
				if n := len(out); n > 0 && out[n-1].CP && out[n-1].Name == cp {
					out[n-1].Last = k
					continue
				}
				out = append(out, LEntry{CP: true, Name: cp, First: k, Last: k})
				continue
			}
		}
		out = append(out, LEntry{Name: k, First: k, Last: k})
	}
	return out
}

// Split separates keys and common prefixes (both ascending).
func Split(es []LEntry) (keys, cps []string) {
	for _, e := range es {
		if e.CP {
			cps = append(cps, e.Name)
		} else {
			keys = append(keys, e.Name)
		}
	}
	return
}

// Strings over an alphabet up to length n, for key/prefix universes.
func Strings(alpha string, n int) []string {
	out := []string{""}
	prev := []string{""}
	for l := 1; l <= n; l++ {
		var cur []string
		for _, p := range prev {
			for _, c := range alpha {
				cur = append(cur, p+string(c))
			}
		}
		out = append(out, cur...)
		prev = cur
	}
	return out
}
