package model

// A.3 version model (memory backend).

type VEntry struct {
	ID     string // actual version id once known ("" = not yet revealed)
	Marker bool
	Body   []byte
	Meta   map[string]string
	Null   bool // created while versioning was not Enabled
	Seq    int  // creation sequence number (unique per model)
}

type VModel struct {
	Status  string              // "" | Enabled | Suspended
	Keys    map[string][]VEntry // creation order per key
	seq     int
	Deleted map[string]bool // ids that were explicitly removed (must answer NoSuchVersion/NoSuchKey)
	AllIDs  map[string]bool // every id ever handed out (freshness)
}

func NewVModel() *VModel {
	return &VModel{Keys: map[string][]VEntry{}, Deleted: map[string]bool{}, AllIDs: map[string]bool{}}
}

func (m *VModel) next() int { m.seq++; return m.seq }

func cloneEntries(es []VEntry) []VEntry { return append([]VEntry{}, es...) }

// Latest returns the entry an unqualified read resolves to (nil: NoSuchKey
// because nothing remains).
func (m *VModel) Latest(k string) *VEntry {
	es := m.Keys[k]
	if len(es) == 0 {
		return nil
	}
	return &es[len(es)-1]
}

func (m *VModel) SetVersioning(enabled bool) {
	if enabled {
		m.Status = "Enabled"
	} else if m.Status == "Enabled" {
		m.Status = "Suspended"
	}
}

func (m *VModel) newObj(body []byte, meta map[string]string, null bool) VEntry {
	mm := map[string]string{}
	for k, v := range meta {
		mm[k] = v
	}
	return VEntry{Body: append([]byte{}, body...), Meta: mm, Null: null, Seq: m.next()}
}

// PutCandidates returns the allowed successor entry lists of key k for a put
// in the current status (one candidate unless Suspended).
func (m *VModel) PutCandidates(k string, body []byte, meta map[string]string) [][]VEntry {
	es := m.Keys[k]
	switch m.Status {
	case "":
		return [][]VEntry{{m.newObj(body, meta, true)}}
	case "Enabled":
		return [][]VEntry{append(cloneEntries(es), m.newObj(body, meta, false))}
	}
	n := m.newObj(body, meta, true)
	// AWS: the null version is replaced wherever it is
	var aws []VEntry
	for _, e := range es {
		if !e.Null {
			aws = append(aws, e)
		}
	}
	aws = append(aws, n)
	// minimal: only a null current entry is replaced
	min := cloneEntries(es)
	if len(min) > 0 && min[len(min)-1].Null {
		min = min[:len(min)-1]
	}
	min = append(min, n)
	return [][]VEntry{aws, min}
}

// DeleteCandidates: allowed successors for a plain delete of k.
func (m *VModel) DeleteCandidates(k string) [][]VEntry {
	es := m.Keys[k]
	switch m.Status {
	case "":
		return [][]VEntry{nil}
	case "Enabled":
		return [][]VEntry{append(cloneEntries(es), VEntry{Marker: true, Seq: m.next()})}
	}
	mk := VEntry{Marker: true, Null: true, Seq: m.next()}
	var aws []VEntry
	for _, e := range es {
		if !e.Null {
			aws = append(aws, e)
		}
	}
	aws = append(aws, mk)
	// minimal: drop a null current entry; an enabled-era current version is
	// either hidden behind a null marker or left alone
	min := cloneEntries(es)
	if len(min) > 0 && min[len(min)-1].Null {
		min = min[:len(min)-1]
		return [][]VEntry{aws, min, append(cloneEntries(min), mk)}
	}
	return [][]VEntry{aws, append(cloneEntries(es), mk), min}
}

// DeleteVersion removes exactly the entry with the given id (no-op when absent).
func (m *VModel) DeleteVersion(k, id string) {
	es := m.Keys[k]
	for i, e := range es {
		if e.ID != "" && e.ID == id {
			m.Keys[k] = append(cloneEntries(es[:i]), es[i+1:]...)
			if len(m.Keys[k]) == 0 {
				delete(m.Keys, k)
			}
			m.Deleted[id] = true
			return
		}
	}
}

func (m *VModel) Set(k string, es []VEntry) {
	if len(es) == 0 {
		delete(m.Keys, k)
		return
	}
	m.Keys[k] = es
}
