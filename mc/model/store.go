// Package model holds the boring reference models (maps and slices) that
// encode the property statements. They are the trusted base of the checks.
package model

import (
	"sort"
)

// Obj is a stored object as the statement sees it: bytes and the metadata
// that must come back (additional metadata on the implementation side is
// tolerated, see DESIGN C01/T).
type Obj struct {
	Body []byte
	Meta map[string]string // lower-case header name -> value that must be returned
}

func (o *Obj) Clone() *Obj {
	m := map[string]string{}
	for k, v := range o.Meta {
		m[k] = v
	}
	return &Obj{Body: append([]byte{}, o.Body...), Meta: m}
}

// Store is the A.1 bucket/object model.
type Store struct {
	Buckets map[string]map[string]*Obj
	Auto    bool
	Single  string // non-empty: single-bucket world with exactly this bucket
}

func NewStore(auto bool, single string) *Store {
	s := &Store{Buckets: map[string]map[string]*Obj{}, Auto: auto, Single: single}
	if single != "" {
		s.Buckets[single] = map[string]*Obj{}
	}
	return s
}

// Need implements ensureBucketExists: reports whether the bucket exists
// (creating it under auto-bucket).
func (s *Store) Need(b string) bool {
	if _, ok := s.Buckets[b]; ok {
		return true
	}
	if s.Auto && s.Single == "" {
		s.Buckets[b] = map[string]*Obj{}
		return true
	}
	return false
}

func (s *Store) Has(b string) bool { _, ok := s.Buckets[b]; return ok }

func (s *Store) Get(b, k string) *Obj {
	if m, ok := s.Buckets[b]; ok {
		return m[k]
	}
	return nil
}

func (s *Store) Keys(b string) []string {
	var ks []string
	for k := range s.Buckets[b] {
		ks = append(ks, k)
	}
	sort.Strings(ks)
	return ks
}

func (s *Store) BucketNames() []string {
	var ns []string
	for n := range s.Buckets {
		ns = append(ns, n)
	}
	sort.Strings(ns)
	return ns
}

// Exp is an expected answer: acceptable status, S3 error code ("" for
// success) and whatever else the step oracle compares.
type Exp struct {
	Status int
	Code   string
}

func (s *Store) CreateBucket(b string) Exp {
	if s.Single != "" {
		return Exp{501, "NotImplemented"}
	}
	if s.Has(b) {
		return Exp{409, "BucketAlreadyExists"}
	}
	s.Buckets[b] = map[string]*Obj{}
	return Exp{200, ""}
}

func (s *Store) DeleteBucket(b string) Exp {
	if !s.Need(b) {
		return Exp{404, "NoSuchBucket"}
	}
	if s.Single != "" {
		return Exp{501, "NotImplemented"}
	}
	if len(s.Buckets[b]) > 0 {
		return Exp{409, "BucketNotEmpty"}
	}
	delete(s.Buckets, b)
	return Exp{204, ""}
}

func (s *Store) Put(b, k string, body []byte, meta map[string]string) Exp {
	if !s.Need(b) {
		return Exp{404, "NoSuchBucket"}
	}
	m := map[string]string{}
	for kk, v := range meta {
		m[kk] = v
	}
	s.Buckets[b][k] = &Obj{Body: append([]byte{}, body...), Meta: m}
	return Exp{200, ""}
}

func (s *Store) Delete(b, k string) Exp {
	if !s.Need(b) {
		return Exp{404, "NoSuchBucket"}
	}
	delete(s.Buckets[b], k)
	return Exp{204, ""}
}

func (s *Store) MultiDelete(b string, ks []string) Exp {
	if !s.Need(b) {
		return Exp{404, "NoSuchBucket"}
	}
	for _, k := range ks {
		delete(s.Buckets[b], k)
	}
	return Exp{200, ""}
}

// Copy returns the expectation and the source object (for ETag comparison).
func (s *Store) Copy(sb, sk, db, dk string) (Exp, *Obj) {
	if !s.Need(db) {
		return Exp{404, "NoSuchBucket"}, nil
	}
	if !s.Has(sb) {
		return Exp{404, "NoSuchBucket"}, nil
	}
	src := s.Get(sb, sk)
	if src == nil {
		return Exp{404, "NoSuchKey"}, nil
	}
	c := src.Clone()
	s.Buckets[db][dk] = c
	return Exp{200, ""}, src
}

// Render is a canonical rendering of the model state (part of every state key:
// an implementation that reaches an already seen storage state while the model
// is somewhere else has diverged, and must not be merged away).
func (s *Store) Render() string {
	out := ""
	for _, b := range s.BucketNames() {
		out += "B " + b + "\n"
		for _, k := range s.Keys(b) {
			o := s.Buckets[b][k]
			var mk []string
			for m := range o.Meta {
				mk = append(mk, m)
			}
			sort.Strings(mk)
			ms := ""
			for _, m := range mk {
				ms += m + "=" + o.Meta[m] + ";"
			}
			out += " K " + k + " " + string(o.Body) + " " + ms + "\n"
		}
	}
	return out
}
