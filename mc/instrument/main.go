// Command instrument generates a `go build -overlay` file from the current
// working tree of the repository:
//
//   - every non-test file of the served packages that imports "sync" is copied
//     with the import rewritten to the vsync shim; s3bolt's bbolt import is
//     rewritten to the vbolt shim; `go` statements become vsched.Go;
//   - the shim packages are mapped to the virtual directory <repo>/zverif/...;
//   - an overlay-only export file is added to package gofakes3;
//   - bbolt's db.go (module cache) is replaced by a copy with a writeAt hook.
//
// It also records every concurrency primitive it does not shim (channels,
// select, timers, sync/atomic) so the evidence can state the assumption.
package main

import (
	"bytes"
	"encoding/json"
	"flag"
	"fmt"
	"go/ast"
	"go/parser"
	"go/printer"
	"go/token"
	"os"
	"path/filepath"
	"sort"
	"strconv"
	"strings"
)

const modPath = "github.com/johannesboyne/gofakes3"

type report struct {
	Rewritten    []string `json:"rewritten_files"`
	GoStatements []string `json:"go_statements_rewritten"`
	Unshimmed    []string `json:"unshimmed_primitives"`
	BboltHook    bool     `json:"bbolt_hook"`
	YieldPoints  int      `json:"yield_points_inserted"`
}

func main() {
	repo := flag.String("repo", "/repo", "repository root")
	shim := flag.String("shim", "/verif/shim", "shim source directory")
	out := flag.String("out", "", "output directory")
	modcache := flag.String("modcache", "", "GOMODCACHE")
	flag.Parse()
	if *out == "" {
		fatal("missing -out")
	}
	must(os.MkdirAll(*out, 0o755))
	repoRoot = strings.TrimRight(*repo, "/")
	overlay := map[string]string{}
	rep := &report{}

	pkgs := []string{".", "backend/s3mem", "backend/s3bolt", "backend/s3afero", "internal/goskipiter", "internal/s3io"}
	for _, pkg := range pkgs {
		dir := filepath.Join(*repo, pkg)
		ents, err := os.ReadDir(dir)
		if err != nil {
			continue
		}
		for _, e := range ents {
			name := e.Name()
			if e.IsDir() || !strings.HasSuffix(name, ".go") || strings.HasSuffix(name, "_test.go") {
				continue
			}
			src := filepath.Join(dir, name)
			data, err := os.ReadFile(src)
			must(err)
			newData, changed := rewrite(src, data, pkg, rep)
			if !changed {
				continue
			}
			dst := filepath.Join(*out, "src", pkg, name)
			must(os.MkdirAll(filepath.Dir(dst), 0o755))
			must(os.WriteFile(dst, newData, 0o644))
			overlay[src] = dst
			rep.Rewritten = append(rep.Rewritten, filepath.Join(pkg, name))
		}
	}

	for _, s := range []string{"vsched", "vsync", "vbolt"} {
		overlay[filepath.Join(*repo, "zverif", s, s+".go")] = filepath.Join(*shim, s, s+".go")
	}
	overlay[filepath.Join(*repo, "zz_verif_export.go")] = filepath.Join(*shim, "export", "zz_verif_export.go")

	// bbolt writeAt hook
	if *modcache != "" {
		dbgo := filepath.Join(*modcache, "go.etcd.io", "bbolt@v1.3.5", "db.go")
		data, err := os.ReadFile(dbgo)
		must(err)
		const needle = "db.ops.writeAt = db.file.WriteAt"
		if bytes.Count(data, []byte(needle)) != 1 {
			fatal("bbolt db.go: hook site not found exactly once")
		}
		data = bytes.Replace(data, []byte(needle),
			[]byte("db.ops.writeAt = func(b []byte, off int64) (int, error) { if h := VerifWriteAtHook; h != nil { return h(db.file, b, off) }; return db.file.WriteAt(b, off) }"), 1)
		data = append(data, []byte("\n// VerifWriteAtHook is installed by the verification harness (overlay only).\nvar VerifWriteAtHook func(f *os.File, b []byte, off int64) (int, error)\n")...)
		dst := filepath.Join(*out, "src", "bbolt_db.go")
		must(os.WriteFile(dst, data, 0o644))
		overlay[dbgo] = dst
		rep.BboltHook = true
	}

	sort.Strings(rep.Rewritten)
	sort.Strings(rep.Unshimmed)
	ov, _ := json.MarshalIndent(map[string]interface{}{"Replace": overlay}, "", " ")
	must(os.WriteFile(filepath.Join(*out, "overlay.json"), ov, 0o644))
	rj, _ := json.MarshalIndent(rep, "", " ")
	must(os.WriteFile(filepath.Join(*out, "instrument-report.json"), rj, 0o644))
}

func rewrite(path string, data []byte, pkg string, rep *report) ([]byte, bool) {
	fset := token.NewFileSet()
	f, err := parser.ParseFile(fset, path, data, parser.ParseComments)
	if err != nil {
		fatal(fmt.Sprintf("parse %s: %v", path, err))
	}
	changed := false
	syncName := ""
	for _, imp := range f.Imports {
		p, _ := strconv.Unquote(imp.Path.Value)
		switch {
		case p == "sync":
			imp.Path.Value = strconv.Quote(modPath + "/zverif/vsync")
			if imp.Name == nil {
				imp.Name = ast.NewIdent("sync")
			}
			syncName = imp.Name.Name
			changed = true
		case p == "go.etcd.io/bbolt" && pkg == "backend/s3bolt":
			imp.Path.Value = strconv.Quote(modPath + "/zverif/vbolt")
			if imp.Name == nil {
				imp.Name = ast.NewIdent("bbolt")
			}
			changed = true
		case p == "sync/atomic":
			rep.Unshimmed = append(rep.Unshimmed, rel(path)+": import sync/atomic")
		}
	}
	_ = syncName
	needVsched := false
	ast.Inspect(f, func(n ast.Node) bool {
		switch x := n.(type) {
		case *ast.BlockStmt:
			rewriteGoStmts(x.List, fset, path, rep, &needVsched)
		case *ast.CaseClause:
			rewriteGoStmts(x.Body, fset, path, rep, &needVsched)
		case *ast.CommClause:
			rewriteGoStmts(x.Body, fset, path, rep, &needVsched)
		case *ast.SelectStmt:
			rep.Unshimmed = append(rep.Unshimmed, fmt.Sprintf("%s:%d: select", rel(path), fset.Position(x.Pos()).Line))
		case *ast.ChanType:
			rep.Unshimmed = append(rep.Unshimmed, fmt.Sprintf("%s:%d: chan type", rel(path), fset.Position(x.Pos()).Line))
		case *ast.SendStmt:
			rep.Unshimmed = append(rep.Unshimmed, fmt.Sprintf("%s:%d: channel send", rel(path), fset.Position(x.Pos()).Line))
		case *ast.SelectorExpr:
			if id, ok := x.X.(*ast.Ident); ok && id.Name == "time" {
				switch x.Sel.Name {
				case "Sleep", "After", "AfterFunc", "NewTimer", "NewTicker", "Tick":
					rep.Unshimmed = append(rep.Unshimmed, fmt.Sprintf("%s:%d: time.%s", rel(path), fset.Position(x.Pos()).Line, x.Sel.Name))
				}
			}
		}
		return true
	})
	if yieldFile(pkg, filepath.Base(path)) {
		n := 0
		ast.Inspect(f, func(nd ast.Node) bool {
			switch x := nd.(type) {
			case *ast.FuncDecl:
				if x.Body == nil {
					return false
				}
			case *ast.BlockStmt:
				x.List = withYields(x.List, &n)
			case *ast.CaseClause:
				x.Body = withYields(x.Body, &n)
			case *ast.CommClause:
				x.Body = withYields(x.Body, &n)
			}
			return true
		})
		if n > 0 {
			needVsched = true
			rep.YieldPoints += n
		}
	}
	if needVsched {
		changed = true
		addImport(f, modPath+"/zverif/vsched")
	}
	if !changed {
		return data, false
	}
	var buf bytes.Buffer
	must(printer.Fprint(&buf, fset, f))
	return buf.Bytes(), true
}

// yieldFile selects the files whose statements get a vsched.Yield() in front:
// the backends and the shared helpers that run backend-side logic.
func yieldFile(pkg, base string) bool {
	switch pkg {
	case "backend/s3mem", "backend/s3bolt", "backend/s3afero":
		return true
	case ".":
		return base == "uploader.go" || base == "backend.go"
	}
	return false
}

func withYields(list []ast.Stmt, n *int) []ast.Stmt {
	if len(list) == 0 {
		return list
	}
	out := make([]ast.Stmt, 0, 2*len(list))
	for _, st := range list {
		switch st.(type) {
		case *ast.DeclStmt, *ast.LabeledStmt, *ast.EmptyStmt, *ast.CaseClause, *ast.CommClause:
			out = append(out, st)
			continue
		}
		if es, ok := st.(*ast.ExprStmt); ok {
			if call, ok := es.X.(*ast.CallExpr); ok {
				if sel, ok := call.Fun.(*ast.SelectorExpr); ok {
					if id, ok := sel.X.(*ast.Ident); ok && id.Name == "vsched" {
						out = append(out, st)
						continue
					}
				}
			}
		}
		out = append(out, &ast.ExprStmt{X: &ast.CallExpr{Fun: &ast.SelectorExpr{X: ast.NewIdent("vsched"), Sel: ast.NewIdent("Yield")}}})
		*n++
		out = append(out, st)
	}
	return out
}

func rewriteGoStmts(list []ast.Stmt, fset *token.FileSet, path string, rep *report, need *bool) {
	for i, st := range list {
		g, ok := st.(*ast.GoStmt)
		if !ok {
			continue
		}
		rep.GoStatements = append(rep.GoStatements, fmt.Sprintf("%s:%d", rel(path), fset.Position(g.Pos()).Line))
		*need = true
		fn := &ast.FuncLit{
			Type: &ast.FuncType{Params: &ast.FieldList{}},
			Body: &ast.BlockStmt{List: []ast.Stmt{&ast.ExprStmt{X: g.Call}}},
		}
		list[i] = &ast.ExprStmt{X: &ast.CallExpr{
			Fun:  &ast.SelectorExpr{X: ast.NewIdent("vsched"), Sel: ast.NewIdent("Go")},
			Args: []ast.Expr{fn},
		}}
	}
}

func addImport(f *ast.File, p string) {
	spec := &ast.ImportSpec{Path: &ast.BasicLit{Kind: token.STRING, Value: strconv.Quote(p)}}
	decl := &ast.GenDecl{Tok: token.IMPORT, Specs: []ast.Spec{spec}}
	f.Decls = append([]ast.Decl{decl}, f.Decls...)
	f.Imports = append(f.Imports, spec)
}

var repoRoot string

func rel(p string) string {
	if repoRoot != "" && strings.HasPrefix(p, repoRoot+"/") {
		return p[len(repoRoot)+1:]
	}
	return p
}

func must(err error) {
	if err != nil {
		fatal(err.Error())
	}
}

func fatal(msg string) {
	fmt.Fprintln(os.Stderr, "HARNESS-ERROR instrument:", msg)
	os.Exit(2)
}
