package props

import (
	"encoding/xml"
	"fmt"

	"github.com/johannesboyne/gofakes3"

	"verifmc/drv"
	"verifmc/engine"
)

// c13GoAPI: a version listing handed out by the backend's Go API belongs to
// its caller: listings made afterwards (other prefixes, more versions in the
// bucket) must not change it. Differential oracle: the rendering of a result
// before and after every later call.
func c13GoAPI(c *engine.Ctx) {
	w, err := drv.NewWorld(drv.Config{Kind: drv.Mem})
	if err != nil {
		engine.HarnessError("C13: %v", err)
	}
	defer w.Close()
	vb, ok := w.Backend.(gofakes3.VersionedBackend)
	if !ok {
		return
	}
	w.Do(drv.Req{Method: "PUT", Path: "/aaa"})
	w.Do(drv.Req{Method: "PUT", Path: "/aaa", Query: "versioning", Body: []byte("<VersioningConfiguration><Status>Enabled</Status></VersioningConfiguration>")})
	for _, k := range []string{"a/1", "a/1", "a/2", "b/1", "b/1", "b/1", "c"} {
		w.Do(drv.Req{Method: "PUT", Path: "/aaa/" + k, Body: []byte(k)})
	}
	w.Do(drv.Req{Method: "DELETE", Path: "/aaa/a/2"})
	render := func(r *gofakes3.ListBucketVersionsResult) string {
		b, err := xml.Marshal(r)
		if err != nil {
			return "marshal error: " + err.Error()
		}
		return string(b)
	}
	pfx := func(p string) *gofakes3.Prefix { x := gofakes3.NewPrefix(&p, nil); return &x }
	prefixes := []string{"a/", "b/", "", "c", "zzz"}
	var n int64
	for _, p1 := range prefixes {
		for _, p2 := range prefixes {
			r1, err := vb.ListBucketVersions("aaa", pfx(p1), nil)
			if err != nil {
				engine.HarnessError("C13 go-api listing: %v", err)
			}
			before := render(r1)
			if _, err := vb.ListBucketVersions("aaa", pfx(p2), nil); err != nil {
				engine.HarnessError("C13 go-api listing: %v", err)
			}
			w.Do(drv.Req{Method: "PUT", Path: "/aaa/d", Body: []byte("later")})
			_, _ = vb.ListBucketVersions("aaa", pfx(""), nil)
			n += 3
			if after := render(r1); after != before {
				c.Report(&engine.Violation{Sig: sig("C13", "mem", "go-api", "result-changed-by-a-later-listing"), World: "mem",
					History: []string{fmt.Sprintf("ListBucketVersions(prefix %q), kept", p1), fmt.Sprintf("ListBucketVersions(prefix %q)", p2), "PUT d", "ListBucketVersions(no prefix)"},
					Msg:     fmt.Sprintf("the result of ListBucketVersions(prefix %q) changed after later listings:\nbefore: %s\nafter:  %s", p1, clip(before, 600), clip(after, 600))})
				return
			}
		}
	}
	c.Add(0, n, n, n)
}
