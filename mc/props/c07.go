package props

import (
	"encoding/json"
	"fmt"
	"net/http"
	"os"
	"os/exec"
	"runtime/debug"
	"sort"
	"strconv"
	"strings"
	"sync"

	"github.com/anishathalye/porcupine"
	"github.com/johannesboyne/gofakes3/zverif/vsched"

	"verifmc/drv"
	"verifmc/engine"
	"verifmc/model"
)

// C07 — concurrent clients: linearizable, race-free, deadlock-free (schedmc).

type cOp struct {
	Kind  string // put get head delete copy list multidelete listver getver part complete abort createbucket deletebucket
	Key   string
	Key2  string
	Body  string
	Meta  string
	Keys  []string
	N     int
	Parts []model.CPart
	Slow  int // deliver the body in this many pieces (0 = one)
	VerID string
	// Chunked: the put is sent with the aws-chunked framing, its body arriving in two pieces
	// cut inside the first "chunk-signature=" token (the decoder waits there for the rest)
	Chunked bool
}

func (o cOp) String() string {
	s := o.Kind + " " + o.Key
	if o.Key2 != "" {
		s += "->" + o.Key2
	}
	if o.Body != "" {
		s += " " + strconv.Quote(clip(o.Body, 12))
	}
	if o.Meta != "" {
		s += " meta=" + o.Meta
	}
	if o.N != 0 {
		s += " #" + strconv.Itoa(o.N)
	}
	if len(o.Keys) > 0 {
		s += fmt.Sprint(o.Keys)
	}
	return s
}

type cOut struct {
	Status int
	Code   string
	Body   string
	ETag   string
	Len    string
	Meta   string
	VerID  string
	List   []string
	Panic  string
}

func (o cOut) String() string {
	if o.Panic != "" {
		return "PANIC " + firstLine(o.Panic)
	}
	s := strconv.Itoa(o.Status)
	if o.Code != "" {
		s += " " + o.Code
	}
	if o.Body != "" || o.ETag != "" {
		s += fmt.Sprintf(" body=%s etag=%s len=%s meta=%s", clipBytes([]byte(o.Body)), o.ETag, o.Len, o.Meta)
	}
	if o.List != nil {
		s += fmt.Sprint(" ", o.List)
	}
	return s
}

type cEvent struct {
	Thread    int
	Op        cOp
	Call, Ret int64
	Out       cOut
}

// ---- sequential model for porcupine --------------------------------------

type lobj struct{ Body, Meta string }
type lver struct{ ID, Body string }

type lstate struct {
	Bucket    bool
	Versioned bool
	Objs      map[string]lobj
	Vers      map[string][]lver
	IDs       map[string]bool
	Upload    bool
	Parts     map[int]string
	UpKey     string
	Pending   map[string]string // copy in flight: body read from the source ("\x00" = source missing)
	Uploads   map[string]bool   // ids handed out by concurrent initiate requests
	Auto      bool              // a request that needs the bucket creates it
}

func (s *lstate) clone() *lstate {
	n := &lstate{Bucket: s.Bucket, Versioned: s.Versioned, Upload: s.Upload, UpKey: s.UpKey, Auto: s.Auto,
		Objs: map[string]lobj{}, Vers: map[string][]lver{}, IDs: map[string]bool{}, Parts: map[int]string{}, Pending: map[string]string{}}
	for k, v := range s.Objs {
		n.Objs[k] = v
	}
	for k, v := range s.Vers {
		n.Vers[k] = append([]lver{}, v...)
	}
	for k := range s.IDs {
		n.IDs[k] = true
	}
	for k, v := range s.Parts {
		n.Parts[k] = v
	}
	for k, v := range s.Pending {
		n.Pending[k] = v
	}
	if len(s.Uploads) > 0 {
		n.Uploads = map[string]bool{}
		for k := range s.Uploads {
			n.Uploads[k] = true
		}
	}
	return n
}

func (s *lstate) render() string {
	b, _ := json.Marshal(s)
	return string(b)
}

func listOf(s *lstate) []string {
	var l []string
	for k, o := range s.Objs {
		l = append(l, k+"="+drv.ETagOf([]byte(o.Body)))
	}
	sort.Strings(l)
	return l
}

func sameList(a, b []string) bool {
	return strings.Join(a, "\x00") == strings.Join(b, "\x00")
}

// lstep is the sequential specification.
func lstep(st *lstate, in cOp, out cOut) (bool, *lstate) {
	if out.Panic != "" {
		return false, st
	}
	switch in.Kind {
	case "createbucket":
		if st.Bucket {
			return out.Status == 409, st
		}
		n := st.clone()
		n.Bucket = true
		return out.Status == 200, n
	case "deletebucket":
		if !st.Bucket {
			return out.Status == 404, st
		}
		if len(st.Objs) > 0 {
			return out.Status == 409, st
		}
		n := st.clone()
		n.Bucket = false
		// the pending uploads of a bucket go with it
		n.Uploads = nil
		n.Upload = false
		n.Parts = map[int]string{}
		return out.Status == 204, n
	}
	if !st.Bucket && st.Auto {
		// first use creates the bucket, then the operation proceeds as usual
		st = st.clone()
		st.Bucket = true
	}
	if !st.Bucket {
		return out.Status == 404 && (out.Code == "NoSuchBucket" || in.Kind == "head"), st
	}
	switch in.Kind {
	case "put":
		if out.Status != 200 || out.ETag != drv.ETagOf([]byte(in.Body)) {
			return false, st
		}
		n := st.clone()
		n.Objs[in.Key] = lobj{in.Body, in.Meta}
		if st.Versioned {
			if out.VerID == "" || st.IDs[out.VerID] {
				return false, st
			}
			n.IDs[out.VerID] = true
			n.Vers[in.Key] = append(n.Vers[in.Key], lver{out.VerID, in.Body})
		}
		return true, n
	case "get", "head", "delete-undelete-get":
		o, ok := st.Objs[in.Key]
		if !ok {
			return out.Status == 404, st
		}
		if out.Status != 200 || out.ETag != drv.ETagOf([]byte(o.Body)) || out.Len != strconv.Itoa(len(o.Body)) {
			return false, st
		}
		if in.Kind != "head" && out.Body != o.Body {
			return false, st
		}
		if o.Meta != "" && out.Meta != o.Meta {
			return false, st
		}
		return true, st
	case "delete":
		if out.Status != 204 {
			return false, st
		}
		n := st.clone()
		delete(n.Objs, in.Key)
		return true, n
	case "multidelete":
		if out.Status != 200 {
			return false, st
		}
		n := st.clone()
		for _, k := range in.Keys {
			delete(n.Objs, k)
		}
		return true, n
	case "copy-read":
		n := st.clone()
		if o, ok := st.Objs[in.Key]; ok {
			n.Pending[in.Key2] = o.Body
		} else {
			n.Pending[in.Key2] = "\x00"
		}
		return true, n
	case "copy-write":
		b, ok := st.Pending[in.Key2]
		if !ok {
			return false, st
		}
		n := st.clone()
		delete(n.Pending, in.Key2)
		if b == "\x00" {
			return out.Status == 404, n
		}
		if out.Status != 200 || out.ETag != drv.ETagOf([]byte(b)) {
			return false, st
		}
		n.Objs[in.Key2] = lobj{Body: b}
		if st.Versioned {
			// a copy is an upload: it gets a version id of its own that leads to the copied bytes
			if out.VerID == "" || st.IDs[out.VerID] {
				return false, st
			}
			n.IDs[out.VerID] = true
			n.Vers[in.Key2] = append(n.Vers[in.Key2], lver{out.VerID, b})
		}
		return true, n
	case "list":
		return out.Status == 200 && sameList(out.List, listOf(st)), st
	case "listver":
		var want []string
		for k, vs := range st.Vers {
			for _, v := range vs {
				want = append(want, k+"@"+v.ID+"="+drv.ETagOf([]byte(v.Body)))
			}
		}
		sort.Strings(want)
		got := append([]string{}, out.List...)
		sort.Strings(got)
		return out.Status == 200 && sameList(got, want), st
	case "getver":
		for _, v := range st.Vers[in.Key] {
			if v.ID == in.VerID {
				return out.Status == 200 && out.Body == v.Body && out.ETag == drv.ETagOf([]byte(v.Body)), st
			}
		}
		return out.Status == 404, st
	case "part":
		if !st.Upload {
			return out.Status == 404, st
		}
		if out.Status != 200 || out.ETag != drv.ETagOf([]byte(in.Body)) {
			return false, st
		}
		n := st.clone()
		n.Parts[in.N] = in.Body
		return true, n
	case "complete":
		if !st.Upload {
			return out.Status == 404, st
		}
		body := ""
		for _, p := range in.Parts {
			b, ok := st.Parts[p.N]
			if !ok || drv.ETagOf([]byte(b)) != p.ETag {
				return out.Status == 400, st
			}
			body += b
		}
		if out.Status != 200 {
			return false, st
		}
		n := st.clone()
		n.Upload = false
		n.Parts = map[int]string{}
		n.Objs[st.UpKey] = lobj{Body: body}
		return true, n
	case "abort":
		if !st.Upload {
			return out.Status == 404, st
		}
		n := st.clone()
		n.Upload = false
		n.Parts = map[int]string{}
		return out.Status == 204, n
	case "initiate":
		if !st.Bucket {
			return out.Status == 404, st
		}
		// every acknowledged initiate hands out an id of its own
		if out.Status != 200 || out.VerID == "" || st.Uploads[out.VerID] {
			return false, st
		}
		n := st.clone()
		if n.Uploads == nil {
			n.Uploads = map[string]bool{}
		}
		n.Uploads[out.VerID] = true
		return true, n
	case "listuploads":
		if !st.Bucket {
			return out.Status == 404, st
		}
		var want []string
		for id := range st.Uploads {
			want = append(want, id)
		}
		sort.Strings(want)
		got := append([]string{}, out.List...)
		sort.Strings(got)
		if len(want) == 0 && out.Status == 404 {
			return true, st // (a bucket that has not had an upload: outside the statement of C14)
		}
		return out.Status == 200 && sameList(got, want), st
	case "listparts":
		if !st.Upload {
			return out.Status == 404, st
		}
		var want []string
		for n, b := range st.Parts {
			want = append(want, strconv.Itoa(n)+"="+drv.ETagOf([]byte(b)))
		}
		sort.Strings(want)
		got := append([]string{}, out.List...)
		sort.Strings(got)
		return out.Status == 200 && sameList(got, want), st
	}
	return false, st
}

type porcIn struct {
	Op cOp
}

func c07Model(init *lstate) porcupine.Model {
	return porcupine.Model{
		Init: func() interface{} { return init },
		Step: func(state, input, output interface{}) (bool, interface{}) {
			ok, n := lstep(state.(*lstate), input.(cOp), output.(cOut))
			return ok, n
		},
		Equal: func(a, b interface{}) bool { return a.(*lstate).render() == b.(*lstate).render() },
		DescribeOperation: func(in, out interface{}) string {
			return in.(cOp).String() + " => " + out.(cOut).String()
		},
	}
}

// ---- scenarios ---------------------------------------------------------

type c07Scenario struct {
	name      string
	kinds     []drv.Kind
	versioned bool
	upload    bool  // setup initiates an upload on key k
	setupOps  []cOp // sequential setup (puts / parts)
	noBucket  bool  // start without the bucket
	auto      bool  // auto-bucket creation on (first use of a bucket creates it)
	threads   [][]cOp
	final     []cOp
	lessBound int // explored with a preemption bound lowered by this much (4-5 client scenarios)
}

var allSchedKinds = []drv.Kind{drv.Mem, drv.Bolt, drv.MultiMem, drv.SingleMem}

func bigBody(tag string, n int) string {
	return strings.Repeat(tag, n/len(tag))
}

func c07Scenarios() []c07Scenario {
	eA := drv.ETagOf([]byte("a"))
	return []c07Scenario{
		// four and five concurrent clients on one key (bound lowered by one: 1 quick, 2 thorough)
		{name: "four-clients", kinds: allSchedKinds, lessBound: 1, setupOps: []cOp{{Kind: "put", Key: "k", Body: "A"}},
			threads: [][]cOp{{{Kind: "put", Key: "k", Body: "BB"}}, {{Kind: "put", Key: "k", Body: "CCC"}}, {{Kind: "delete", Key: "k"}}, {{Kind: "get", Key: "k"}}},
			final:   []cOp{{Kind: "get", Key: "k"}, {Kind: "list"}}},
		{name: "five-clients-two-keys", kinds: []drv.Kind{drv.Mem, drv.MultiMem}, lessBound: 1, setupOps: []cOp{{Kind: "put", Key: "k", Body: "A"}},
			threads: [][]cOp{{{Kind: "put", Key: "k", Body: "BB"}}, {{Kind: "copy", Key: "k", Key2: "k2"}}, {{Kind: "delete", Key: "k2"}}, {{Kind: "get", Key: "k2"}}, {{Kind: "list"}}},
			final:   []cOp{{Kind: "get", Key: "k"}, {Kind: "get", Key: "k2"}, {Kind: "list"}}},
		// auto-bucket: concurrent first uses of a bucket that does not exist yet
		{name: "autobucket-put-put-get", kinds: []drv.Kind{drv.Mem, drv.Bolt, drv.MultiMem}, noBucket: true, auto: true,
			threads: [][]cOp{{{Kind: "put", Key: "k", Body: "A"}}, {{Kind: "put", Key: "k2", Body: "BB"}}, {{Kind: "get", Key: "k"}}},
			final:   []cOp{{Kind: "get", Key: "k"}, {Kind: "get", Key: "k2"}, {Kind: "list"}}},
		// concurrent initiates: every acknowledged upload id is distinct and all of them are listed
		{name: "initiate-initiate-listuploads", kinds: []drv.Kind{drv.Mem, drv.Bolt},
			threads: [][]cOp{{{Kind: "initiate", Key: "k"}}, {{Kind: "initiate", Key: "k"}}, {{Kind: "initiate", Key: "k2"}, {Kind: "listuploads"}}},
			final:   []cOp{{Kind: "listuploads"}}},
		{name: "put-put-get", kinds: allSchedKinds, setupOps: []cOp{{Kind: "put", Key: "k", Body: "A"}},
			threads: [][]cOp{{{Kind: "put", Key: "k", Body: "BB"}}, {{Kind: "put", Key: "k", Body: "CCC"}}, {{Kind: "get", Key: "k"}}},
			final:   []cOp{{Kind: "get", Key: "k"}, {Kind: "list"}}},
		{name: "slowput-get-delete", kinds: allSchedKinds, setupOps: []cOp{{Kind: "put", Key: "k", Body: "A"}},
			threads: [][]cOp{{{Kind: "put", Key: "k", Body: "BBBB", Slow: 2}}, {{Kind: "get", Key: "k"}}, {{Kind: "delete", Key: "k"}}},
			final:   []cOp{{Kind: "get", Key: "k"}, {Kind: "list"}}},
		{name: "slowget-overwrite", kinds: allSchedKinds, setupOps: []cOp{{Kind: "put", Key: "k", Body: bigBody("A", 40000)}},
			threads: [][]cOp{{{Kind: "get", Key: "k"}}, {{Kind: "put", Key: "k", Body: bigBody("B", 20000)}}},
			final:   []cOp{{Kind: "get", Key: "k"}}},
		{name: "slowget-overwrite3", kinds: allSchedKinds, setupOps: []cOp{{Kind: "put", Key: "k", Body: bigBody("A", 40000)}},
			threads: [][]cOp{{{Kind: "get", Key: "k"}}, {{Kind: "put", Key: "k", Body: bigBody("B", 40000)}, {Kind: "put", Key: "k", Body: bigBody("C", 30000)}, {Kind: "put", Key: "k2", Body: bigBody("D", 50000)}}},
			final:   []cOp{{Kind: "get", Key: "k"}}},
		// two readers of different large objects: what one response still has to send must not
		// be touched by the other request (a buffer shared between requests)
		{name: "slowget-get-other", kinds: allSchedKinds, setupOps: []cOp{{Kind: "put", Key: "k", Body: bigBody("A", 40000)}, {Kind: "put", Key: "k2", Body: bigBody("B", 40000)}},
			threads: [][]cOp{{{Kind: "get", Key: "k"}}, {{Kind: "get", Key: "k2"}}},
			final:   []cOp{{Kind: "get", Key: "k"}}},
		// two aws-chunked uploads of different keys, each stalled inside a framing token: the
		// decoder of one must not see what the other's transport delivered
		{name: "chunkedput-chunkedput", kinds: []drv.Kind{drv.Mem, drv.Bolt},
			threads: [][]cOp{{{Kind: "put", Key: "k", Body: "AAAA", Chunked: true}}, {{Kind: "put", Key: "k2", Body: "BBBBBB", Chunked: true}}},
			final:   []cOp{{Kind: "get", Key: "k"}, {Kind: "get", Key: "k2"}}},
		{name: "slowpart-complete", kinds: []drv.Kind{drv.Mem, drv.Bolt}, upload: true, setupOps: []cOp{{Kind: "part", N: 1, Body: "a"}},
			threads: [][]cOp{{{Kind: "part", N: 1, Body: "bbbb", Slow: 2}}, {{Kind: "complete", Parts: []model.CPart{{N: 1, ETag: eA}}}}, {{Kind: "listparts"}}},
			final:   []cOp{{Kind: "get", Key: "k"}, {Kind: "listparts"}}},
		{name: "copy-put-get", kinds: allSchedKinds, setupOps: []cOp{{Kind: "put", Key: "k", Body: "A"}},
			threads: [][]cOp{{{Kind: "copy", Key: "k", Key2: "k2"}}, {{Kind: "put", Key: "k", Body: "BB"}}, {{Kind: "get", Key: "k2"}}},
			final:   []cOp{{Kind: "get", Key: "k"}, {Kind: "get", Key: "k2"}, {Kind: "list"}}},
		{name: "put-meta-put-meta-head", kinds: allSchedKinds, setupOps: []cOp{{Kind: "put", Key: "k", Body: "A", Meta: "m0"}},
			threads: [][]cOp{{{Kind: "put", Key: "k", Body: "BB", Meta: "m1"}}, {{Kind: "put", Key: "k", Body: "CCC", Meta: "m2"}, {Kind: "head", Key: "k"}}},
			final:   []cOp{{Kind: "get", Key: "k"}}},
		{name: "put-put-list", kinds: allSchedKinds,
			threads: [][]cOp{{{Kind: "put", Key: "k1", Body: "A"}}, {{Kind: "put", Key: "k2", Body: "BB"}}, {{Kind: "list"}}},
			final:   []cOp{{Kind: "list"}}},
		{name: "delete-put-head", kinds: allSchedKinds, setupOps: []cOp{{Kind: "put", Key: "k", Body: "A"}},
			threads: [][]cOp{{{Kind: "delete", Key: "k"}}, {{Kind: "put", Key: "k", Body: "BB"}}, {{Kind: "head", Key: "k"}}},
			final:   []cOp{{Kind: "get", Key: "k"}, {Kind: "list"}}},
		{name: "multidelete-put", kinds: allSchedKinds, setupOps: []cOp{{Kind: "put", Key: "k", Body: "A"}, {Kind: "put", Key: "k2", Body: "A2"}},
			threads: [][]cOp{{{Kind: "multidelete", Keys: []string{"k", "k2"}}}, {{Kind: "put", Key: "k", Body: "BB"}}, {{Kind: "list"}}},
			final:   []cOp{{Kind: "get", Key: "k"}, {Kind: "get", Key: "k2"}, {Kind: "list"}}},
		{name: "versioned-put-put-listver", kinds: []drv.Kind{drv.Mem}, versioned: true,
			threads: [][]cOp{{{Kind: "put", Key: "k", Body: "A"}}, {{Kind: "put", Key: "k", Body: "BB"}}, {{Kind: "listver"}}},
			final:   []cOp{{Kind: "listver"}, {Kind: "get", Key: "k"}, {Kind: "delete-undelete-get", Key: "k"}}},
		{name: "versioned-copy-put-listver", kinds: []drv.Kind{drv.Mem}, versioned: true, setupOps: []cOp{{Kind: "put", Key: "s", Body: "SRC"}},
			threads: [][]cOp{{{Kind: "copy", Key: "s", Key2: "k"}}, {{Kind: "put", Key: "k", Body: "BB"}}},
			final:   []cOp{{Kind: "listver"}, {Kind: "get", Key: "k"}}},
		{name: "versioned-copy-delete-get", kinds: []drv.Kind{drv.Mem}, versioned: true, setupOps: []cOp{{Kind: "put", Key: "s", Body: "SRC"}},
			threads: [][]cOp{{{Kind: "copy", Key: "s", Key2: "k"}}, {{Kind: "delete", Key: "k"}}},
			final:   []cOp{{Kind: "get", Key: "k"}}},
		{name: "versioned-delete-put-get", kinds: []drv.Kind{drv.Mem}, versioned: true, setupOps: []cOp{{Kind: "put", Key: "k", Body: "A"}},
			threads: [][]cOp{{{Kind: "delete", Key: "k"}}, {{Kind: "put", Key: "k", Body: "BB"}}, {{Kind: "get", Key: "k"}}},
			final:   []cOp{{Kind: "get", Key: "k"}, {Kind: "list"}}},
		{name: "complete-put-get", kinds: []drv.Kind{drv.Mem, drv.MultiMem}, upload: true, setupOps: []cOp{{Kind: "part", N: 1, Body: "a"}},
			threads: [][]cOp{{{Kind: "complete", Parts: []model.CPart{{N: 1, ETag: eA}}}}, {{Kind: "put", Key: "k", Body: "PP"}}, {{Kind: "get", Key: "k"}}},
			final:   []cOp{{Kind: "get", Key: "k"}, {Kind: "listparts"}}},
		{name: "part-part-complete", kinds: []drv.Kind{drv.Mem, drv.MultiMem}, upload: true, setupOps: []cOp{{Kind: "part", N: 1, Body: "z"}},
			threads: [][]cOp{{{Kind: "part", N: 1, Body: "a"}}, {{Kind: "part", N: 1, Body: "bb"}}, {{Kind: "complete", Parts: []model.CPart{{N: 1, ETag: eA}}}}},
			final:   []cOp{{Kind: "get", Key: "k"}, {Kind: "listparts"}}},
		{name: "part-complete-abort", kinds: []drv.Kind{drv.Mem, drv.Bolt}, upload: true, setupOps: []cOp{{Kind: "part", N: 1, Body: "a"}},
			threads: [][]cOp{{{Kind: "part", N: 2, Body: "bb"}}, {{Kind: "complete", Parts: []model.CPart{{N: 1, ETag: eA}}}}, {{Kind: "abort"}}},
			final:   []cOp{{Kind: "get", Key: "k"}, {Kind: "listparts"}}},
		// bucket deletion against the multipart bookkeeping: an upload initiated in a bucket
		// lives and dies with that bucket, whatever overlaps
		{name: "initiate-deletebucket", kinds: []drv.Kind{drv.Mem, drv.Bolt, drv.MultiMem},
			threads: [][]cOp{{{Kind: "initiate", Key: "k"}}, {{Kind: "deletebucket"}}},
			final:   []cOp{{Kind: "createbucket"}, {Kind: "listuploads"}}},
		{name: "deletebucket-recreate-initiate", kinds: []drv.Kind{drv.Mem, drv.Bolt, drv.MultiMem},
			threads: [][]cOp{{{Kind: "deletebucket"}}, {{Kind: "createbucket"}, {Kind: "initiate", Key: "k"}}},
			final:   []cOp{{Kind: "createbucket"}, {Kind: "listuploads"}}},
		{name: "deletebucket-deletebucket", kinds: []drv.Kind{drv.Mem, drv.Bolt, drv.MultiMem},
			threads: [][]cOp{{{Kind: "deletebucket"}}, {{Kind: "deletebucket"}}},
			final:   []cOp{{Kind: "createbucket"}, {Kind: "list"}}},
		// a listing that loses its bucket half way is refused and leaves nothing held: the
		// bucket can be made again and written to
		{name: "list-deletebucket-recreate-put", kinds: []drv.Kind{drv.Mem, drv.Bolt, drv.MultiMem},
			threads: [][]cOp{{{Kind: "list"}}, {{Kind: "deletebucket"}, {Kind: "createbucket"}, {Kind: "put", Key: "k", Body: "A"}}},
			final:   []cOp{{Kind: "get", Key: "k"}, {Kind: "list"}}},
		{name: "createbucket-put-deletebucket", kinds: []drv.Kind{drv.Mem, drv.Bolt, drv.MultiMem}, noBucket: true,
			threads: [][]cOp{{{Kind: "createbucket"}}, {{Kind: "put", Key: "k", Body: "A"}}, {{Kind: "deletebucket"}}},
			final:   []cOp{{Kind: "get", Key: "k"}}},
	}
}

// c07Run is one execution of a scenario on a world kind.
type c07Exec struct {
	events []cEvent
	init   *lstate
	ids    []string
}

type c07Runner struct {
	sc       c07Scenario
	kind     drv.Kind
	uploadID string
	tick     int64
	w        *drv.World
	events   []cEvent
	mu       sync.Mutex
	free     bool // free-running (race pass): protect the event log with a real mutex
}

func (r *c07Runner) now() int64 {
	r.tick++
	return r.tick
}

func (r *c07Runner) serve(req drv.Req) drv.Resp {
	hr := r.w.Addr(req).Build()
	sw := drv.NewSchedWriter()
	panicText := ""
	func() {
		defer func() {
			if p := recover(); p != nil {
				if vsched.Active() && vsched.Cur().Aborting() {
					panic(p)
				}
				panicText = fmt.Sprintf("%v\n%s", p, debug.Stack())
			}
		}()
		var h http.Handler = r.w.H
		h.ServeHTTP(sw, hr)
	}()
	return sw.Resp(panicText)
}

func (r *c07Runner) exec(op cOp) cOut {
	b := "/aaa"
	var resp drv.Resp
	bodyReq := func(method, path, query string, hdr [][2]string, body string, pieces int) drv.Resp {
		fr := drv.NewFrag([]byte(body), nil, 0, false)
		if pieces > 1 {
			fr.Every = (len(body) + pieces - 1) / pieces
		}
		fr.OnRead = func() { vsched.Point(vsched.KBodyRead, "", nil) }
		return r.serve(drv.Req{Method: method, Path: path, Query: query, Header: hdr, BodyReader: fr, DeclLen: ptr64(int64(len(body)))})
	}
	out := cOut{}
	switch op.Kind {
	case "put":
		var hdr [][2]string
		if op.Meta != "" {
			hdr = drv.H("x-amz-meta-a", op.Meta)
		}
		if op.Chunked {
			wire := drv.EncodeChunked([]byte(op.Body), []int{len(op.Body)})
			cut := strings.Index(string(wire), "chunk-signature=") + 5
			fr := drv.NewFrag(wire, []int{cut}, 0, false)
			fr.OnRead = func() { vsched.Point(vsched.KBodyRead, "", nil) }
			hdr = append(hdr, [2]string{"X-Amz-Content-Sha256", "STREAMING-AWS4-HMAC-SHA256-PAYLOAD"}, [2]string{"X-Amz-Decoded-Content-Length", strconv.Itoa(len(op.Body))})
			resp = r.serve(drv.Req{Method: "PUT", Path: b + "/" + op.Key, Header: hdr, BodyReader: fr, DeclLen: ptr64(int64(len(wire)))})
			break
		}
		resp = bodyReq("PUT", b+"/"+op.Key, "", hdr, op.Body, op.Slow)
	case "get":
		resp = r.serve(drv.Req{Method: "GET", Path: b + "/" + op.Key})
	case "head":
		resp = r.serve(drv.Req{Method: "HEAD", Path: b + "/" + op.Key})
	case "delete-undelete-get":
		// quiescent composite: a plain delete (adds a marker), deletion of exactly that marker, then a read:
		// the newest remaining version must be served again
		d := r.serve(drv.Req{Method: "DELETE", Path: b + "/" + op.Key})
		if id := d.Header.Get("x-amz-version-id"); id != "" {
			r.serve(drv.Req{Method: "DELETE", Path: b + "/" + op.Key, Query: drv.Q("versionId", id)})
		}
		resp = r.serve(drv.Req{Method: "GET", Path: b + "/" + op.Key})
	case "delete":
		resp = r.serve(drv.Req{Method: "DELETE", Path: b + "/" + op.Key})
	case "copy":
		resp = r.serve(drv.Req{Method: "PUT", Path: b + "/" + op.Key2, Header: drv.H("X-Amz-Copy-Source", "/aaa/"+op.Key), Body: []byte{}})
		if n := resp.XML(); n != nil && resp.Status == 200 {
			out.ETag = n.T("ETag")
		}
	case "list":
		resp = r.serve(drv.Req{Method: "GET", Path: b})
		lp := drv.ParseList(resp)
		out.List = []string{}
		for _, e := range lp.Entries {
			out.List = append(out.List, e.Key+"="+e.ETag)
		}
		sort.Strings(out.List)
	case "multidelete":
		resp = bodyReq("POST", b, "delete", nil, string(multiDeleteBody(op.Keys, false)), 1)
	case "listver":
		resp = r.serve(drv.Req{Method: "GET", Path: b, Query: "versions"})
		vp := drv.ParseVersions(resp)
		out.List = []string{}
		for _, e := range vp.Entries {
			out.List = append(out.List, e.Key+"@"+e.ID+"="+e.ETag)
		}
	case "getver":
		resp = r.serve(drv.Req{Method: "GET", Path: b + "/" + op.Key, Query: drv.Q("versionId", op.VerID)})
	case "part":
		resp = bodyReq("PUT", b+"/k", drv.Q("uploadId", r.uploadID, "partNumber", strconv.Itoa(op.N)), nil, op.Body, op.Slow)
	case "complete":
		resp = bodyReq("POST", b+"/k", drv.Q("uploadId", r.uploadID), nil, string(completeBody(op.Parts)), 1)
	case "abort":
		resp = r.serve(drv.Req{Method: "DELETE", Path: b + "/k", Query: drv.Q("uploadId", r.uploadID)})
	case "initiate":
		resp = r.serve(drv.Req{Method: "POST", Path: b + "/" + op.Key, Query: "uploads"})
		if n := resp.XML(); n != nil && resp.Status == 200 {
			out.VerID = n.T("UploadId")
		}
	case "listuploads":
		resp = r.serve(drv.Req{Method: "GET", Path: b, Query: "uploads"})
		up := drv.ParseUploads(resp)
		out.List = []string{}
		for _, u := range up.Uploads {
			out.List = append(out.List, u.ID)
		}
	case "listparts":
		resp = r.serve(drv.Req{Method: "GET", Path: b + "/k", Query: drv.Q("uploadId", r.uploadID)})
		pp := drv.ParseParts(resp)
		out.List = []string{}
		for _, p := range pp.Parts {
			out.List = append(out.List, strconv.Itoa(p.N)+"="+p.ETag)
		}
	case "createbucket":
		resp = r.serve(drv.Req{Method: "PUT", Path: b, Body: []byte{}})
	case "deletebucket":
		resp = r.serve(drv.Req{Method: "DELETE", Path: b})
	}
	out.Status, out.Panic = resp.Status, resp.Panic
	if resp.Status >= 300 {
		out.Code = resp.ErrCode()
	}
	if op.Kind != "copy" && resp.Header != nil {
		out.ETag = resp.Header.Get("ETag")
	}
	if resp.Header != nil {
		out.Len = resp.Header.Get("Content-Length")
		out.Meta = resp.Header.Get("x-amz-meta-a")
		if op.Kind != "initiate" {
			out.VerID = resp.Header.Get("x-amz-version-id")
		}
	}
	if op.Kind == "get" || op.Kind == "getver" || op.Kind == "delete-undelete-get" {
		if resp.Status == 200 {
			out.Body = string(resp.Body)
		}
	}
	return out
}

func (r *c07Runner) record(thread int, op cOp) {
	r.lock()
	call := r.now()
	r.unlock()
	out := r.exec(op)
	r.lock()
	r.events = append(r.events, cEvent{Thread: thread, Op: op, Call: call, Ret: r.now(), Out: out})
	r.unlock()
}

func (r *c07Runner) lock() {
	if r.free {
		r.mu.Lock()
	}
}
func (r *c07Runner) unlock() {
	if r.free {
		r.mu.Unlock()
	}
}

// prepare builds the world and the initial model state.
func (r *c07Runner) prepare() (*lstate, error) {
	cfg := drv.Config{Kind: r.kind, AutoBucket: r.sc.auto}
	if r.kind.IsFs() {
		cfg.FsWrap = drv.NewSchedFs
	}
	w, err := drv.NewWorld(cfg)
	if err != nil {
		return nil, err
	}
	r.w = w
	init := &lstate{Objs: map[string]lobj{}, Vers: map[string][]lver{}, IDs: map[string]bool{}, Parts: map[int]string{}, Pending: map[string]string{}, UpKey: "k", Auto: r.sc.auto}
	if !r.sc.noBucket || r.kind.IsSingle() {
		init.Bucket = true
		if !r.kind.IsSingle() {
			if resp := w.Do(drv.Req{Method: "PUT", Path: "/aaa"}); resp.Status != 200 {
				return nil, fmt.Errorf("setup bucket: %s", resp.Short())
			}
		}
	}
	if r.sc.versioned {
		w.Do(drv.Req{Method: "PUT", Path: "/aaa", Query: "versioning", Body: []byte(xmlVerEnabled)})
		init.Versioned = true
	}
	if r.sc.upload {
		resp := w.Do(drv.Req{Method: "POST", Path: "/aaa/k", Query: "uploads"})
		if n := resp.XML(); n != nil {
			r.uploadID = n.T("UploadId")
		}
		if r.uploadID == "" {
			return nil, fmt.Errorf("setup upload: %s", resp.Short())
		}
		init.Upload = true
	}
	for _, op := range r.sc.setupOps {
		out := r.exec(op)
		ok, n := lstep(init, op, out)
		if !ok {
			return nil, fmt.Errorf("setup op %s answered %s", op, out)
		}
		init = n
	}
	return init, nil
}

func (r *c07Runner) runSched(choose func(i int, p *vsched.PointInfo) int) (*vsched.Result, interface{}) {
	r.events, r.tick = nil, 0
	init, err := r.prepare()
	if err != nil {
		engine.HarnessError("C07 %s/%s: %v", r.sc.name, r.kind, err)
	}
	defer r.w.Close()
	var bodies []func()
	for ti, prog := range r.sc.threads {
		ti, prog := ti, prog
		bodies = append(bodies, func() {
			for _, op := range prog {
				r.record(ti, op)
			}
		})
	}
	res := vsched.Run(bodies, choose, 10000)
	x := &c07Exec{init: init}
	if !res.Deadlock && !res.Horizon {
		for _, op := range r.sc.final {
			r.record(99, op)
			if op.Kind == "listver" {
				// read every returned version id
				last := r.events[len(r.events)-1]
				for _, e := range last.Out.List {
					ke := strings.SplitN(e, "=", 2)[0]
					parts := strings.SplitN(ke, "@", 2)
					r.record(99, cOp{Kind: "getver", Key: parts[0], VerID: parts[1]})
				}
			}
		}
	}
	x.events = append([]cEvent{}, r.events...)
	return res, x
}

func c07Ops(x *c07Exec) []porcupine.Operation {
	var ops []porcupine.Operation
	for _, e := range x.events {
		if e.Op.Kind == "copy" {
			// a copy reads the source and writes the destination at two instants of its interval
			rd := e.Op
			rd.Kind = "copy-read"
			wr := e.Op
			wr.Kind = "copy-write"
			ops = append(ops, porcupine.Operation{ClientId: e.Thread, Input: rd, Call: e.Call, Output: cOut{}, Return: e.Ret},
				porcupine.Operation{ClientId: e.Thread + 50, Input: wr, Call: e.Call, Output: e.Out, Return: e.Ret})
			continue
		}
		ops = append(ops, porcupine.Operation{ClientId: e.Thread, Input: e.Op, Call: e.Call, Output: e.Out, Return: e.Ret})
	}
	return ops
}

func stripIDs(evs []cEvent) []cEvent {
	out := append([]cEvent{}, evs...)
	return out
}

func renderEvents(evs []cEvent) []string {
	var out []string
	for _, e := range evs {
		out = append(out, fmt.Sprintf("T%d[%d,%d] %s => %s", e.Thread, e.Call, e.Ret, e.Op, e.Out))
	}
	return out
}

func c07Check(sc c07Scenario, kind drv.Kind) func(x *engine.Execution) *engine.Violation {
	return func(x *engine.Execution) *engine.Violation {
		class := backendClass(kind)
		if kind.IsDir() {
			// a real directory behaves differently from MemMapFs under concurrent
			// overwrites (known finding): keep the two apart in signatures
			class = "fs-dir"
		}
		ex := x.Data.(*c07Exec)
		if x.Result.Deadlock {
			return &engine.Violation{Sig: sig("C07", class, sc.name, "deadlock"), Msg: fmt.Sprintf("deadlock: blocked threads %v", x.Result.Blocked), History: renderEvents(ex.events)}
		}
		if x.Result.IOUnderLock != "" {
			return &engine.Violation{Sig: sig("C07", class, sc.name, "client-io-under-lock", strings.Fields(x.Result.IOUnderLock)[0]), Msg: "a request waits for its client (" + x.Result.IOUnderLock + "): a stalled client blocks every other request that needs the lock", History: renderEvents(ex.events)}
		}
		for tid, p := range x.Result.Panics {
			return &engine.Violation{Sig: sig("C07", class, sc.name, "panic@"+drv.PanicFrame(p)), Msg: fmt.Sprintf("thread %d panicked: %s", tid, firstLine(p)), History: renderEvents(ex.events)}
		}
		for _, e := range ex.events {
			if e.Out.Panic != "" {
				return &engine.Violation{Sig: sig("C07", class, sc.name, "panic@"+drv.PanicFrame(e.Out.Panic)), Msg: "handler panicked: " + firstLine(e.Out.Panic), History: renderEvents(ex.events)}
			}
		}
		res := porcupine.CheckOperations(c07Model(ex.init), c07Ops(ex))
		if res {
			return nil
		}
		// classify the anomaly
		written := map[string]bool{}
		for _, o := range ex.init.Objs {
			written[o.Body] = true
		}
		for _, e := range ex.events {
			if e.Op.Kind == "put" {
				written[e.Op.Body] = true
			}
		}
		anomaly := "order"
		for _, e := range ex.events {
			if (e.Op.Kind == "get" || e.Op.Kind == "getver") && e.Out.Status == 200 {
				if !written[e.Out.Body] && !sc.upload {
					anomaly = "mixed-or-truncated-body"
					break
				}
				if e.Out.ETag != drv.ETagOf([]byte(e.Out.Body)) || e.Out.Len != strconv.Itoa(len(e.Out.Body)) {
					anomaly = "etag-or-length-mismatch"
					break
				}
			}
		}
		return &engine.Violation{Sig: sig("C07", class, sc.name, "not-linearizable", anomaly, engine.PreemptionSignature(x)),
			Msg:     fmt.Sprintf("history is not linearizable (%s) on %s", anomaly, kind),
			History: renderEvents(ex.events)}
	}
}

func c07Outcome(x *engine.Execution) string {
	ex := x.Data.(*c07Exec)
	var p []string
	evs := append([]cEvent{}, ex.events...)
	sort.Slice(evs, func(i, j int) bool {
		if evs[i].Thread != evs[j].Thread {
			return evs[i].Thread < evs[j].Thread
		}
		return evs[i].Call < evs[j].Call
	})
	for _, e := range evs {
		o := e.Out
		o.VerID = ""
		p = append(p, fmt.Sprintf("T%d:%d/%s/%v", e.Thread, o.Status, clip(o.Body, 4), len(o.List)))
	}
	return strings.Join(p, " ")
}

type c07JobResult struct {
	Scenario   string            `json:"scenario"`
	World      string            `json:"world"`
	Executions int64             `json:"executions"`
	Points     int64             `json:"points"`
	MaxPoints  int               `json:"max_points"`
	Outcomes   int               `json:"distinct_outcomes"`
	BoundDone  int               `json:"bound_completed"`
	Capped     bool              `json:"capped"`
	Violation  *engine.Violation `json:"violation,omitempty"`
	Sample     []string          `json:"sample,omitempty"`
}

// c07Sub runs one (scenario, world) job in a worker process: verifmc -sub c07 <scenario> <kind> <bound> <maxexec>
func c07Sub(args []string) int {
	if len(args) < 4 {
		fmt.Println("HARNESS-ERROR c07 sub: bad args")
		return 2
	}
	bound, _ := strconv.Atoi(args[2])
	maxEx, _ := strconv.ParseInt(args[3], 10, 64)
	for _, sc := range c07Scenarios() {
		if sc.name != args[0] {
			continue
		}
		kind := drv.Kind(args[1])
		r := &c07Runner{sc: sc, kind: kind}
		var sample []string
		scen := &engine.SchedScenario{Name: sc.name, World: string(kind),
			Run:     r.runSched,
			Check:   c07Check(sc, kind),
			Outcome: c07Outcome}
		stats, v := engine.ExploreSched(scen, bound, maxEx)
		// determinism self-check: the same schedule twice must give identical observations
		{
			r1, d1 := r.runSched(func(i int, p *vsched.PointInfo) int { return len(p.Enabled) - 1 })
			r2, d2 := r.runSched(func(i int, p *vsched.PointInfo) int { return len(p.Enabled) - 1 })
			if engine.RenderSchedule(&engine.Execution{Result: r1}) != engine.RenderSchedule(&engine.Execution{Result: r2}) ||
				strings.Join(renderEvents(stripIDs(d1.(*c07Exec).events)), "|") != strings.Join(renderEvents(stripIDs(d2.(*c07Exec).events)), "|") {
				fmt.Println("HARNESS-ERROR nondeterminism: scenario", sc.name, "on", kind, "gives different observations for the same schedule")
				return 2
			}
		}
		// one sample schedule (default schedule)
		res, d := r.runSched(func(i int, p *vsched.PointInfo) int { return 0 })
		sample = append(sample, engine.RenderSchedule(&engine.Execution{Result: res}))
		sample = append(sample, renderEvents(d.(*c07Exec).events)...)
		out := c07JobResult{Scenario: sc.name, World: string(kind), Executions: stats.Executions, Points: stats.Points, MaxPoints: stats.MaxPoints,
			Outcomes: len(stats.Outcomes), BoundDone: stats.BoundDone, Capped: stats.Capped, Violation: v, Sample: sample}
		b, _ := json.Marshal(out)
		fmt.Println("C07RESULT " + string(b))
		return 0
	}
	fmt.Println("HARNESS-ERROR c07 sub: unknown scenario", args[0])
	return 2
}

// c07Race runs every scenario free-running (real goroutines, real sync) many
// times; meant for the -race build. Exit code 66 is produced by the race
// detector itself when it reports a race.
func c07Race(args []string) int {
	iters := 30
	if len(args) > 0 {
		iters, _ = strconv.Atoi(args[0])
	}
	n := 0
	for _, sc := range c07Scenarios() {
		for _, kind := range sc.kinds {
			for it := 0; it < iters; it++ {
				r := &c07Runner{sc: sc, kind: kind, free: true}
				if _, err := r.prepare(); err != nil {
					fmt.Println("HARNESS-ERROR c07 race:", err)
					return 2
				}
				var wg sync.WaitGroup
				for ti, prog := range sc.threads {
					for rep := 0; rep < 4; rep++ { // 4 copies of every client: 8-12 concurrent goroutines
						wg.Add(1)
						go func(ti int, prog []cOp) {
							defer wg.Done()
							for _, op := range prog {
								r.record(ti, op)
							}
						}(ti, prog)
					}
				}
				wg.Wait()
				r.w.Close()
				n++
			}
		}
	}
	fmt.Printf("C07RACE runs=%d\n", n)
	return 0
}

func runC07(c *engine.Ctx) {
	c.Rule = "schedule = one complete interleaving of a 2-5 thread scenario (1-2 requests each on 1-3 keys) at the visible operations (mutex/RWMutex acquisition, bolt transactions, request-body reads, response writes, file-system mutations and handle reads), explored depth-first with iterative preemption bounding; oracle = deadlock freedom, no panic, and porcupine linearizability of the call/return history (bodies, ETag, Content-Length, metadata, listings, version ids, parts) including quiescent final reads against the sequential model; states = scenarios x worlds, transitions = scheduling points executed, distinct_nontrivial = distinct observable outcomes over all schedules"
	c.Assumptions = append(c.Assumptions, "sequential consistency between visible operations; unsynchronised accesses are left to the separate free-running -race pass over the same scenario bodies", "a copy is modelled as a read of the source and a write of the destination at two instants of its interval (S3 copy is not atomic with respect to the source)", "bbolt's internal serialisation and afero MemMapFs locking are trusted; a bolt transaction is one atomic step", "2-5 threads stand in for 2..16 clients (the 4- and 5-client scenarios with a preemption bound one lower)")
	bound := 2
	maxEx := int64(400000)
	if !quick(c) {
		bound = 3
		maxEx = 1500000
	}
	c.Bounds["preemption_bound"] = bound
	c.Bounds["max_executions_per_job"] = maxEx
	type job struct {
		sc   c07Scenario
		kind drv.Kind
	}
	var jobs []job
	for _, sc := range c07Scenarios() {
		kinds := sc.kinds
		for _, k := range kinds {
			jobs = append(jobs, job{sc, k})
		}
		// real-directory worlds: always for the slow-reader scenario (in-place truncation is only
		// visible on a real inode), for all scenarios in the thorough tier
		if !quick(c) || sc.name == "slowget-overwrite" {
			for _, k := range kinds {
				if k == drv.MultiMem {
					jobs = append(jobs, job{sc, drv.MultiDir})
				}
				if k == drv.SingleMem && !quick(c) {
					jobs = append(jobs, job{sc, drv.SingleDir})
				}
			}
		}
	}
	if c.Replay != nil {
		// replay one recorded schedule without the explorer
		for _, sc := range c07Scenarios() {
			if sc.name != c.Replay.Spec {
				continue
			}
			kind := drv.Kind(c.Replay.World)
			r := &c07Runner{sc: sc, kind: kind}
			choices := c.Replay.OpIdx
			res, d := r.runSched(func(i int, p *vsched.PointInfo) int {
				if i < len(choices) && choices[i] < len(p.Enabled) {
					return choices[i]
				}
				return 0
			})
			x := &engine.Execution{Choices: choices, Result: res, Data: d}
			fmt.Println("REPLAY schedule:", engine.RenderSchedule(x))
			for _, l := range renderEvents(d.(*c07Exec).events) {
				fmt.Println("  ", l)
			}
			if v := c07Check(sc, kind)(x); v != nil {
				v.World, v.Spec = string(kind), sc.name
				c.Report(v)
			} else {
				fmt.Println("  no violation on replay")
			}
		}
		return
	}
	exe, err := os.Executable()
	if err != nil {
		engine.HarnessError("C07: %v", err)
	}
	results := make([]*c07JobResult, len(jobs))
	engine.ParallelFor(len(jobs), func(_, i int) {
		jb := jobs[i]
		cmd := exec.Command(exe, "-scratch", drv.Scratch(), "-sub", "c07", "--", jb.sc.name, string(jb.kind), strconv.Itoa(bound-jb.sc.lessBound), strconv.FormatInt(maxEx, 10))
		cmd.Env = append(os.Environ(), "GOMAXPROCS=2")
		out, err := cmd.CombinedOutput()
		var res *c07JobResult
		for _, line := range strings.Split(string(out), "\n") {
			if strings.HasPrefix(line, "C07RESULT ") {
				res = &c07JobResult{}
				if jerr := json.Unmarshal([]byte(line[len("C07RESULT "):]), res); jerr != nil {
					res = nil
				}
			}
		}
		if res == nil {
			if strings.Contains(string(out), "HARNESS-ERROR") {
				fmt.Print(string(out))
				engine.HarnessError("C07 worker %s/%s failed: %v", jb.sc.name, jb.kind, err)
			}
			// the worker died inside the code under test (fatal error, e.g. concurrent map write)
			c.Report(&engine.Violation{Sig: sig("C07", backendClass(jb.kind), jb.sc.name, "process-crash"), World: string(jb.kind),
				Msg: "worker process crashed: " + clip(string(out), 1500), History: []string{jb.sc.name}})
			return
		}
		results[i] = res
	})
	var states, trans, execs int64
	perScenario := map[string]interface{}{}
	for i, res := range results {
		if res == nil {
			continue
		}
		states++
		trans += res.Points
		execs += res.Executions
		c.Count(res.World, "schedules", res.Executions)
		perScenario[res.Scenario+"/"+res.World] = map[string]interface{}{"schedules": res.Executions, "max_points": res.MaxPoints, "distinct_outcomes": res.Outcomes, "preemption_bound_completed": res.BoundDone, "capped": res.Capped}
		for o := 0; o < res.Outcomes; o++ {
			c.Distinct(fmt.Sprintf("%s/%s/%d", res.Scenario, res.World, o))
		}
		if res.Capped {
			c.Cap(fmt.Sprintf("%s/%s: execution cap hit, preemption bound %d fully covered", res.Scenario, res.World, res.BoundDone))
		}
		if res.Outcomes <= 1 && res.Executions > 10 {
			perScenario[res.Scenario+"/"+res.World].(map[string]interface{})["vacuous"] = true
		}
		if res.Violation != nil {
			c.Report(res.Violation)
		}
		if i < 3 {
			c.AddSample(map[string]interface{}{"scenario": res.Scenario, "world": res.World, "default_schedule_and_history": res.Sample})
		}
	}
	c.Extra["per_scenario"] = perScenario
	c.Add(states, trans, execs, execs)
}

func init() {
	Registry["C07"] = runC07
	SubCommands["c07"] = c07Sub
	SubCommands["c07race"] = c07Race
}
