package props

import (
	"encoding/base64"
	"fmt"
	"sort"
	"strconv"
	"strings"
	"time"

	"verifmc/drv"
	"verifmc/engine"
	"verifmc/model"
)

// C03 (listings exact/sorted/grouped) and C04 (pagination) share one universe:
// put/delete histories over all short keys of a 3-letter alphabet containing
// the delimiter; the property's oracle is evaluated as a state predicate.

type listUniverse struct {
	name     string
	alpha    string
	keys     []string
	prefixes []string
	maxLive  int
	other    string // a non-'/' delimiter
	multi    string // a delimiter of more than one character
}

func newListUniverse(alpha string, maxLen, maxLive int, other string, keyLimit int) *listUniverse {
	u := &listUniverse{name: alpha, alpha: alpha, maxLive: maxLive, other: other, multi: string(alpha[1]) + string(alpha[0])}
	for _, s := range model.Strings(alpha, maxLen) {
		if s == "" {
			u.prefixes = append(u.prefixes, s)
			continue
		}
		if !strings.HasPrefix(s, "/") {
			u.prefixes = append(u.prefixes, s)
		}
		if !strings.HasPrefix(s, "/") && !strings.HasSuffix(s, "/") && !strings.Contains(s, "//") {
			u.keys = append(u.keys, s)
		}
	}
	// a few three-segment keys and longer prefixes (two delimiters) on top of the exhaustive short ones
	a, b := string(alpha[0]), string(alpha[1])
	extraKeys := []string{a + "/" + b + "/" + a, a + "/" + a + "/" + b}
	if strings.Contains(alpha, "-") {
		// directories "a" and "a-": "a-/" sorts before "a/" although "a" sorts before "a-"
		extraKeys = append(extraKeys, "a-/a")
	}
	u.prefixes = append(u.prefixes, a+"//"+a, a+"/"+b+"/", a+"/"+a+"/", a+"/"+b+"/"+a, a+"//"+b)
	defer func() { u.keys = append(u.keys, extraKeys...); sort.Strings(u.keys) }()
	if keyLimit > 0 && len(u.keys) > keyLimit {
		// keep a spread: the keys containing the delimiter first, then short ones
		var with, without []string
		for _, k := range u.keys {
			if strings.Contains(k, "/") {
				with = append(with, k)
			} else {
				without = append(without, k)
			}
		}
		keep := append([]string{}, with...)
		for _, k := range without {
			if len(keep) >= keyLimit {
				break
			}
			keep = append(keep, k)
		}
		if len(keep) > keyLimit {
			keep = keep[:keyLimit]
		}
		sort.Strings(keep)
		u.keys = keep
	}
	return u
}

type listOp struct {
	kind string
	k    string
}

func (o listOp) String() string { return o.kind + " " + o.k }

type listSys struct {
	w         *drv.World
	u         *listUniverse
	prop      string
	versioned bool
	toggles   bool // versioned plan that also suspends and re-enables versioning
	ever      map[string]bool
	// which operations hit a key under which status: whether a version is a "null" version is
	// invisible in a suspended bucket's listings but decides what later deletes do, so the
	// history that determines it is part of the state key
	era     map[string]string
	status  string // Enabled | Suspended (versioned plans)
	bucket  string
	live    map[string]bool
	foreign *int64
	last    string
}

func listBody(k string) []byte { return []byte("v:" + k) }

func newListSys(cfg drv.Config, u *listUniverse, prop string, versioned bool) (*listSys, error) {
	w, err := drv.NewWorld(cfg)
	if err != nil {
		return nil, err
	}
	s := &listSys{w: w, u: u, prop: prop, versioned: versioned, bucket: "aaa", live: map[string]bool{}}
	if !cfg.Kind.IsSingle() {
		if r := w.Do(drv.Req{Method: "PUT", Path: "/aaa"}); r.Status != 200 {
			w.Close()
			return nil, fmt.Errorf("setup: create bucket: %s", r.Short())
		}
	}
	if versioned {
		r := w.Do(drv.Req{Method: "PUT", Path: "/aaa", Query: "versioning", Body: []byte("<VersioningConfiguration><Status>Enabled</Status></VersioningConfiguration>")})
		if r.Status != 200 {
			w.Close()
			return nil, fmt.Errorf("setup: enable versioning: %s", r.Short())
		}
	}
	return s, nil
}

func (s *listSys) Close() { s.w.Close() }

func (s *listSys) liveKeys() []string {
	var ks []string
	for k := range s.live {
		ks = append(ks, k)
	}
	sort.Strings(ks)
	return ks
}

func (s *listSys) fsClash(k string) bool {
	if !s.w.Cfg.Kind.IsFs() {
		return false
	}
	for l := range s.live {
		if strings.HasPrefix(k, l+"/") || strings.HasPrefix(l, k+"/") {
			return true
		}
	}
	return false
}

func (s *listSys) Ops() []engine.Op {
	var ops []engine.Op
	for _, k := range s.u.keys {
		if !s.live[k] && len(s.live) < s.u.maxLive && !s.fsClash(k) {
			ops = append(ops, listOp{"put", k})
		}
	}
	for _, k := range s.u.keys {
		if s.live[k] {
			ops = append(ops, listOp{"delete", k})
		}
	}
	// the multi-object delete request is a second delete path through every backend
	for _, k := range s.u.keys {
		if s.live[k] {
			ops = append(ops, listOp{"mdelete", k})
		}
	}
	if s.toggles {
		// overwrites of live keys and repeated deletes matter once versions pile up
		for _, k := range s.u.keys {
			if s.live[k] {
				ops = append(ops, listOp{"put", k})
			} else if s.ever[k] {
				ops = append(ops, listOp{"delete", k})
			}
		}
		if s.status == "Enabled" {
			ops = append(ops, listOp{"suspend", ""})
		} else {
			ops = append(ops, listOp{"enable", ""})
		}
	}
	// deleting a key that does not exist but is the "directory" of live keys must change nothing
	if !s.versioned {
		seen := map[string]bool{}
		for l := range s.live {
			for i := 0; i < len(l); i++ {
				if l[i] == '/' && i > 0 && !seen[l[:i]] && !s.live[l[:i]] && !strings.HasSuffix(l[:i], "/") {
					seen[l[:i]] = true
				}
			}
		}
		var ds []string
		for d := range seen {
			ds = append(ds, d)
		}
		sort.Strings(ds)
		for _, d := range ds {
			ops = append(ops, listOp{"delete", d}, listOp{"mdelete", d})
		}
	}
	return ops
}

func (s *listSys) Apply(op engine.Op) (string, *engine.Violation) {
	o := op.(listOp)
	s.last = o.kind
	var r drv.Resp
	want := 200
	if o.kind == "suspend" || o.kind == "enable" {
		st := "Suspended"
		if o.kind == "enable" {
			st = "Enabled"
		}
		r = s.w.Do(drv.Req{Method: "PUT", Path: "/" + s.bucket, Query: "versioning", Body: []byte("<VersioningConfiguration><Status>" + st + "</Status></VersioningConfiguration>")})
		s.status = st
	} else if o.kind == "put" {
		r = s.w.Do(drv.Req{Method: "PUT", Path: "/" + s.bucket + "/" + o.k, Body: listBody(o.k)})
		s.live[o.k] = true
		if s.ever != nil {
			s.ever[o.k] = true
			s.era[o.k] += "p" + s.status[:1]
		}
	} else if o.kind == "mdelete" {
		r = s.w.Do(drv.Req{Method: "POST", Path: "/" + s.bucket, Query: "delete", Body: multiDeleteBody([]string{o.k}, true)})
		delete(s.live, o.k)
		if s.era != nil {
			s.era[o.k] += "m" + s.status[:1]
		}
	} else {
		r = s.w.Do(drv.Req{Method: "DELETE", Path: "/" + s.bucket + "/" + o.k})
		delete(s.live, o.k)
		want = 204
		if s.era != nil {
			s.era[o.k] += "d" + s.status[:1]
		}
	}
	if r.Status != want || r.Panic != "" {
		// a put/delete that misbehaves is C02's business (DESIGN B.2): prune, do not report here
		return respSig(r), &engine.Violation{Sig: "FOREIGN", Msg: fmt.Sprintf("%s answered %s", o, r.Short())}
	}
	return respSig(r), nil
}

func (s *listSys) Key() string {
	return drv.KeyOf(s.w.Snapshot(drv.SnapOpts{Versions: s.versioned || s.w.Cfg.Kind == drv.Mem}) + "MODEL " + s.status + strings.Join(s.liveKeys(), "\x00") + fmt.Sprint(len(s.ever)) + drv.MetaString(s.era))
}

func (s *listSys) delims() []string {
	if s.prop == "C04" && s.versioned {
		// (the paging walks of the versioned plan are the costly ones; the plain plans walk with every delimiter)
		return []string{"", "/", s.u.multi}
	}
	return []string{"", "/", s.u.other, s.u.multi}
}

// sideOK applies the statement's side conditions for a delimiter.
func (s *listSys) sideOK(delim string) bool {
	if delim == "" || delim == "/" {
		return true
	}
	for k := range s.live {
		if strings.HasPrefix(k, delim) || strings.HasSuffix(k, delim) {
			return false
		}
	}
	return true
}

func delimClass(d string) string {
	switch d {
	case "":
		return "nodelim"
	case "/":
		return "slash"
	}
	if len(d) > 1 {
		return "multi-char"
	}
	return "other"
}

func prefixClass(p, d string) string {
	switch {
	case p == "":
		return "noprefix"
	case d != "" && strings.HasSuffix(p, d):
		return "dirprefix"
	case d != "" && strings.Contains(p, d):
		return "dir+partial"
	}
	return "partial"
}

func (s *listSys) Check() ([]*engine.Violation, int64) {
	if s.prop == "C04" {
		return s.checkPaging()
	}
	return s.checkListing()
}

func (s *listSys) checkListing() ([]*engine.Violation, int64) {
	var vs []*engine.Violation
	var evals int64
	kind := string(s.w.Cfg.Kind)
	keys := s.liveKeys()
	for _, d := range s.delims() {
		if !s.sideOK(d) {
			continue
		}
		for _, p := range s.u.prefixes {
			if d != "" && strings.HasPrefix(p, d) {
				continue
			}
			exp := model.Group(keys, p, d)
			ek, ec := model.Split(exp)
			for _, v2 := range []bool{false, true} {
				q := drv.Q("prefix", p)
				if p == "" {
					q = ""
				}
				if d != "" {
					q = joinQ(q, drv.Q("delimiter", d))
				}
				if v2 {
					q = joinQ(q, "list-type=2")
				}
				lp := s.w.List(s.bucket, q)
				evals++
				cond := delimClass(d) + "," + prefixClass(p, d)
				for _, k := range keys {
					if strings.ContainsAny(k, "\x01\x0b\uFFFE") {
						cond += ",key-with-a-character-xml-1.0-cannot-carry"
						break
					}
				}
				bad := func(field, msg string) {
					vs = append(vs, viol(sig("C03", kind, "list", field, cond), "GET /%s?%s with live keys %q: %s", s.bucket, q, keys, msg))
				}
				if lp.Panic != "" {
					bad("panic@"+drv.PanicFrame(lp.Panic), firstLine(lp.Panic))
					continue
				}
				if lp.Status != 200 {
					bad(fmt.Sprintf("status=%d:%s", lp.Status, lp.Code), fmt.Sprintf("expected 200, got %d %s", lp.Status, lp.Code))
					continue
				}
				var gk []string
				for _, e := range lp.Entries {
					gk = append(gk, e.Key)
				}
				if strings.Join(gk, "\x00") != strings.Join(ek, "\x00") {
					f := "contents-set"
					if sameSet(gk, ek) {
						f = "contents-order"
					}
					bad(f, fmt.Sprintf("Contents %q, want %q", gk, ek))
					continue
				}
				if strings.Join(lp.Prefixes, "\x00") != strings.Join(ec, "\x00") {
					f := "cp-set"
					if sameSet(lp.Prefixes, ec) {
						f = "cp-order"
					}
					bad(f, fmt.Sprintf("CommonPrefixes %q, want %q", lp.Prefixes, ec))
					continue
				}
				for _, e := range lp.Entries {
					b := listBody(e.Key)
					if e.ETag != drv.ETagOf(b) || e.Size != int64(len(b)) {
						bad("entry", fmt.Sprintf("entry %q etag=%s size=%d, want %s/%d", e.Key, e.ETag, e.Size, drv.ETagOf(b), len(b)))
						break
					}
				}
				if v2 && len(exp) > 0 && (!lp.HasKeyCount || lp.KeyCount != len(exp)) {
					bad("keycount", fmt.Sprintf("KeyCount %d (present=%v), want %d", lp.KeyCount, lp.HasKeyCount, len(exp)))
				}
			}
		}
	}
	// parameters in unusual but legal spellings
	type special struct {
		name, q string
		p, d    string
		refuse  bool // a client-error answer is acceptable instead
	}
	long := strings.Repeat("x", 256)
	for _, sp := range []special{
		{"raw-semicolon-in-prefix", "prefix=a;b", "a;b", "", true},
		{"raw-semicolon-delimiter", "delimiter=;", "", ";", true},
		{"raw-semicolon-after-prefix", "prefix=" + urlq(firstOr(keys, "a")) + "&x=1;y=2", firstOr(keys, "a"), "", true},
		{"prefix-segment-longer-than-a-file-name", drv.Q("prefix", long+"/", "delimiter", "/"), long + "/", "/", false},
		{"prefix-segment-longer-than-a-file-name", drv.Q("prefix", "a/"+long+"/k", "delimiter", "/"), "a/" + long + "/k", "/", false},
		{"prefix-with-nul", drv.Q("prefix", "a\x00b/", "delimiter", "/"), "a\x00b/", "/", false},
	} {
		for _, v2 := range []bool{false, true} {
			q := sp.q
			if v2 {
				q = joinQ(q, "list-type=2")
			}
			lp := s.w.List(s.bucket, q)
			evals++
			bad := func(field, msg string) {
				vs = append(vs, viol(sig("C03", kind, "list-special", sp.name, field), "GET /%s?%s with live keys %q: %s", s.bucket, q, keys, msg))
			}
			if lp.Panic != "" {
				bad("panic@"+drv.PanicFrame(lp.Panic), firstLine(lp.Panic))
				continue
			}
			if sp.refuse && lp.Status >= 400 && lp.Status < 500 {
				continue
			}
			if lp.Status != 200 {
				bad(fmt.Sprintf("status=%d:%s", lp.Status, lp.Code), fmt.Sprintf("expected 200, got %d %s", lp.Status, lp.Code))
				continue
			}
			ek, ec := model.Split(model.Group(keys, sp.p, sp.d))
			var gk []string
			for _, e := range lp.Entries {
				gk = append(gk, e.Key)
			}
			if strings.Join(gk, "\x00") != strings.Join(ek, "\x00") || strings.Join(lp.Prefixes, "\x00") != strings.Join(ec, "\x00") {
				bad("listing", fmt.Sprintf("Contents %q CommonPrefixes %q, want %q and %q", gk, lp.Prefixes, ek, ec))
			}
		}
	}
	return vs, evals
}

func joinQ(a, b string) string {
	if a == "" {
		return b
	}
	if b == "" {
		return a
	}
	return a + "&" + b
}

// ---- C04 ---------------------------------------------------------------

type pageSeq struct {
	names []string
	isCP  []bool
}

func mergePage(lp drv.ListPage) pageSeq {
	var ps pageSeq
	i, j := 0, 0
	for i < len(lp.Entries) || j < len(lp.Prefixes) {
		if j >= len(lp.Prefixes) || (i < len(lp.Entries) && lp.Entries[i].Key < lp.Prefixes[j]) {
			ps.names = append(ps.names, lp.Entries[i].Key)
			ps.isCP = append(ps.isCP, false)
			i++
		} else {
			ps.names = append(ps.names, lp.Prefixes[j])
			ps.isCP = append(ps.isCP, true)
			j++
		}
	}
	return ps
}

func (s *listSys) checkPaging() ([]*engine.Violation, int64) {
	var vs []*engine.Violation
	var evals int64
	kind := string(s.w.Cfg.Kind)
	keys := s.liveKeys()
	paginates := s.w.Cfg.Kind == drv.Mem
	// start markers: every key of the universe (present or not), one beyond the end
	markers := append([]string{}, s.u.keys...)
	markers = append(markers, "zzz")
	// a position given with a raw ';' (clients differ in whether they escape it) means the same
	// position as the escaped spelling, or is refused: it must not be dropped
	if paginates {
		for _, k := range keys {
			if !strings.Contains(k, ";") || strings.ContainsAny(k, "&%+#") {
				continue
			}
			raw := strings.ReplaceAll(urlq(k), "%3B", ";")
			for _, form := range []string{"marker=", "list-type=2&start-after="} {
				esc := s.w.List(s.bucket, form+urlq(k))
				got := s.w.List(s.bucket, form+raw)
				evals += 2
				if got.Panic == "" && got.Status >= 400 && got.Status < 500 {
					continue
				}
				if a, b := mergePage(esc), mergePage(got); got.Status != 200 || strings.Join(a.names, "\x00") != strings.Join(b.names, "\x00") {
					vs = append(vs, viol(sig("C04", kind, "walk", "raw-semicolon-in-position", strings.SplitN(form, "=", 2)[0]), "GET /%s?%s%s with live keys %q answers %d %q; with the ';' escaped it answers %q", s.bucket, form, raw, keys, got.Status, b.names, a.names))
				}
			}
		}
	}
	// prefixes that begin with the delimiter: what such a listing contains is outside the
	// statement's side conditions, but whatever the unpaginated listing says, its pages must
	// add up to it (the server's own unpaginated answer is the reference here)
	if paginates {
		for _, d := range s.delims() {
			if d == "" || !s.sideOK(d) {
				continue // (live keys that begin or end with the delimiter stay excluded)
			}
			for _, p := range []string{d, d + s.u.alpha[:1], d + s.u.alpha[1:2]} {
				base := joinQ(drv.Q("prefix", p), drv.Q("delimiter", d))
				full := s.w.List(s.bucket, base)
				evals++
				if full.Status != 200 || full.Panic != "" {
					continue
				}
				ref := mergePage(full)
				for mk := 1; mk <= len(ref.names)+1; mk++ {
					for _, v2 := range []bool{false, true} {
						var got []string
						cont, trace := "", ""
						for page := 0; ; page++ {
							q := joinQ(base, "max-keys="+strconv.Itoa(mk))
							if v2 {
								q = joinQ(q, "list-type=2")
							}
							q = joinQ(q, cont)
							lp := s.w.List(s.bucket, q)
							evals++
							ps := mergePage(lp)
							trace += fmt.Sprintf(" | %q trunc=%v", ps.names, lp.IsTruncated)
							if lp.Status != 200 || lp.Panic != "" || len(ps.names) > mk || page > len(ref.names)+2 {
								got = append(got, fmt.Sprintf("<page %d: status %d, %d entries>", page, lp.Status, len(ps.names)))
								break
							}
							got = append(got, ps.names...)
							if !lp.IsTruncated {
								break
							}
							switch {
							case v2 && lp.NextToken != "":
								cont = drv.Q("continuation-token", lp.NextToken)
							case !v2 && lp.NextMarker != "":
								cont = drv.Q("marker", lp.NextMarker)
							case !v2 && len(lp.Entries) > 0 && len(lp.Prefixes) == 0:
								cont = drv.Q("marker", lp.Entries[len(lp.Entries)-1].Key)
							default:
								got = append(got, "<truncated without a continuation>")
							}
							if strings.HasPrefix(got[len(got)-1], "<") {
								break
							}
						}
						// (with such a prefix a common prefix is not a prefix of its keys, so the merged
						// order of keys and common prefixes is not defined: compare what was visited)
						gs, rs := append([]string{}, got...), append([]string{}, ref.names...)
						sort.Strings(gs)
						sort.Strings(rs)
						if strings.Join(gs, "\x00") != strings.Join(rs, "\x00") {
							api := "V1"
							if v2 {
								api = "V2"
							}
							vs = append(vs, viol(sig("C04", kind, "walk", "pages-differ-from-unpaginated", delimClass(d)+",prefix-starts-with-delimiter,"+api), "GET /%s?%s with live keys %q, max-keys=%d: pages%s add up to %q, the unpaginated listing is %q", s.bucket, base, keys, mk, trace, got, ref.names))
							break
						}
					}
				}
			}
		}
	}
	for _, d := range s.delims() {
		if !s.sideOK(d) {
			continue
		}
		for _, p := range s.u.prefixes {
			if d != "" && strings.HasPrefix(p, d) {
				continue
			}
			exp := model.Group(keys, p, d)
			if len(exp) == 0 && p != "" {
				continue
			}
			cond0 := delimClass(d)
			base := ""
			if p != "" {
				base = drv.Q("prefix", p)
			}
			if d != "" {
				base = joinQ(base, drv.Q("delimiter", d))
			}
			if !paginates {
				// fallback path: complete listing, IsTruncated=false (or 501 when configured)
				for _, q := range []string{"", "list-type=2", "max-keys=1", "max-keys=1&marker=" + urlq(firstOr(keys, "a")), "list-type=2&max-keys=2&start-after=" + urlq(firstOr(keys, "a")), "max-keys=1000"} {
					lp := s.w.List(s.bucket, joinQ(base, q))
					evals++
					bad := func(field, msg string) {
						vs = append(vs, viol(sig("C04", kind, "fallback", field, cond0), "GET /%s?%s with live keys %q: %s", s.bucket, joinQ(base, q), keys, msg))
					}
					if lp.Panic != "" {
						bad("panic@"+drv.PanicFrame(lp.Panic), firstLine(lp.Panic))
						continue
					}
					if s.w.Cfg.FailOnUnimplPage && strings.Contains(q, "max-keys") {
						// (a request without any paging parameter asks for no page: nothing to refuse)
						if lp.Status != 501 || lp.Code != "NotImplemented" {
							bad("status", fmt.Sprintf("expected 501 NotImplemented, got %d %s", lp.Status, lp.Code))
						}
						continue
					}
					if lp.Status != 200 {
						bad(fmt.Sprintf("status=%d:%s", lp.Status, lp.Code), fmt.Sprintf("expected 200, got %d %s", lp.Status, lp.Code))
						continue
					}
					ps := mergePage(lp)
					if lp.IsTruncated {
						bad("truncated", "IsTruncated=true from a backend that does not paginate")
					} else if !seqEqual(ps, exp) {
						bad("incomplete", fmt.Sprintf("listing %q, want complete listing %q", ps.names, entryNames(exp)))
					}
				}
				continue
			}
			for mk := 1; mk <= len(exp)+1; mk++ {
				for _, v2 := range []bool{false, true} {
					starts := []string{""}
					if mk <= 2 {
						starts = append(starts, markers...)
					}
					for si, start := range starts {
						hasStart := si > 0
						v, n := s.walk(base, d, exp, mk, v2, hasStart, start, keys)
						evals += n
						if v != nil {
							vs = append(vs, v)
						}
					}
				}
			}
		}
	}
	return vs, evals
}

func firstOr(l []string, d string) string {
	if len(l) > 0 {
		return l[0]
	}
	return d
}

func urlq(s string) string { return strings.TrimPrefix(drv.Q("x", s), "x=") }

func entryNames(es []model.LEntry) []string {
	var out []string
	for _, e := range es {
		n := e.Name
		if e.CP {
			n = "CP:" + n
		}
		out = append(out, n)
	}
	return out
}

func seqEqual(ps pageSeq, exp []model.LEntry) bool {
	if len(ps.names) != len(exp) {
		return false
	}
	for i := range exp {
		if ps.names[i] != exp[i].Name || ps.isCP[i] != exp[i].CP {
			return false
		}
	}
	return true
}

// walk follows the server's continuation from an optional start marker and
// checks the C04 clauses. Returns the first violation and the request count.
func (s *listSys) walk(base, d string, all []model.LEntry, mk int, v2, hasStart bool, start string, keys []string) (*engine.Violation, int64) {
	v, n := s.walkSA(base, d, all, mk, v2, hasStart, start, keys, false)
	if v == nil && v2 && hasStart && mk <= 2 {
		v2v, n2 := s.walkSA(base, d, all, mk, v2, hasStart, start, keys, true)
		return v2v, n + n2
	}
	return v, n
}

func (s *listSys) walkSA(base, d string, all []model.LEntry, mk int, v2, hasStart bool, start string, keys []string, keepSA bool) (*engine.Violation, int64) {
	kind := string(s.w.Cfg.Kind)
	// expected entries after the start marker; a common prefix whose group
	// straddles the marker is optional (statement leaves it open)
	var req []model.LEntry
	var optional *model.LEntry
	for i := range all {
		e := all[i]
		switch {
		case !hasStart:
			req = append(req, e)
		case e.CP && strings.HasPrefix(start, e.Name):
			// the client-invented marker lies textually inside this group: the
			// statement leaves open whether the group counts as already reported
			if e.Last > start {
				optional = &all[i]
			}
		case e.First > start:
			req = append(req, e)
		}
	}
	startClass := "start=none"
	if hasStart {
		startClass = "start=client-marker"
	}
	api := "V1"
	if v2 {
		api = "V2"
	}
	if keepSA {
		api = "V2+start-after-kept"
	}
	var reqs int64
	var trace []string
	bad := func(field, msg string) *engine.Violation {
		return viol(sig("C04", kind, "walk", field, delimClass(d)+","+startClass+","+api),
			"paginated walk of /%s?%s max-keys=%d %s start=%q over live keys %q: %s; pages: %s", s.bucket, base, mk, api, start, keys, msg, strings.Join(trace, " | "))
	}
	var got pageSeq
	cont := ""
	first := true
	maxPages := len(all) + 3
	for page := 0; ; page++ {
		if page >= maxPages {
			return bad("no-termination", fmt.Sprintf("still truncated after %d pages", page)), reqs
		}
		q := joinQ(base, "max-keys="+strconv.Itoa(mk))
		if v2 {
			q = joinQ(q, "list-type=2")
			if hasStart && (first || keepSA) {
				// SDK paginators replay the original input and add the token
				q = joinQ(q, drv.Q("start-after", start))
			}
			if !first {
				q = joinQ(q, drv.Q("continuation-token", cont))
			}
		} else {
			if first && hasStart {
				q = joinQ(q, drv.Q("marker", start))
			} else if !first {
				q = joinQ(q, drv.Q("marker", cont))
			}
		}
		lp := s.w.List(s.bucket, q)
		reqs++
		if lp.Panic != "" {
			return bad("panic@"+drv.PanicFrame(lp.Panic), firstLine(lp.Panic)), reqs
		}
		if lp.Status != 200 {
			return bad(fmt.Sprintf("status=%d:%s", lp.Status, lp.Code), "page request failed"), reqs
		}
		ps := mergePage(lp)
		trace = append(trace, fmt.Sprintf("%q trunc=%v next=%q", ps.names, lp.IsTruncated, lp.NextMarker+lp.NextToken))
		if len(ps.names) > mk {
			return bad("over-page-size", fmt.Sprintf("page %d has %d entries", page, len(ps.names))), reqs
		}
		got.names = append(got.names, ps.names...)
		got.isCP = append(got.isCP, ps.isCP...)
		if !lp.IsTruncated {
			break
		}
		// continuation
		if v2 {
			if lp.NextToken == "" {
				return bad("no-continuation", "IsTruncated=true without NextContinuationToken"), reqs
			}
			if _, err := base64.URLEncoding.DecodeString(lp.NextToken); err != nil {
				// opaque is fine; we only hand it back
			}
			cont = lp.NextToken
		} else {
			switch {
			case lp.NextMarker != "":
				cont = lp.NextMarker
			case len(lp.Entries) > 0:
				cont = lp.Entries[len(lp.Entries)-1].Key
			default:
				return bad("no-continuation", "IsTruncated=true, no NextMarker and no key on the page"), reqs
			}
		}
		first = false
	}
	// compare the concatenation
	exp := req
	if optional != nil && len(got.names) > 0 && got.isCP[0] && got.names[0] == optional.Name {
		exp = append([]model.LEntry{*optional}, req...)
	}
	if !seqEqual(got, exp) {
		field := "mismatch"
		seen := map[string]int{}
		for i, n := range got.names {
			tag := "k:"
			if got.isCP[i] {
				tag = "cp:"
			}
			seen[tag+n]++
		}
		rep := false
		for k, c := range seen {
			if c > 1 {
				rep = true
				if strings.HasPrefix(k, "cp:") {
					field = "repeated-cp"
				} else if field != "repeated-cp" {
					field = "repeated-key"
				}
			}
		}
		if !rep {
			if len(got.names) < len(exp) {
				field = "skipped"
			} else if len(got.names) > len(exp) {
				field = "extra"
			} else {
				field = "order-or-identity"
			}
		}
		return bad(field, fmt.Sprintf("concatenated pages %q, want %q", got.names, entryNames(exp))), reqs
	}
	return nil, reqs
}

// ---- runners -------------------------------------------------------------

type listPlan struct {
	toggles   bool // versioned plan with suspend/enable operations
	cfg       drv.Config
	u         *listUniverse
	versioned bool
	depth     int
}

func listPlans(c *engine.Ctx, prop string) []listPlan {
	var plans []listPlan
	var u1, u2 *listUniverse
	depth := 4
	if quick(c) {
		u1 = newListUniverse("ab/", 3, 3, "a", 8)
		u2 = newListUniverse("-a/", 3, 3, "a", 8)
	} else {
		u1 = newListUniverse("ab/", 3, 4, "a", 0)
		u2 = newListUniverse("-a/", 3, 4, "a", 0)
		depth = 5
	}
	kinds := []drv.Kind{drv.Mem, drv.Bolt, drv.MultiMem, drv.SingleMem}
	if !quick(c) {
		kinds = append(kinds, drv.MultiDir, drv.SingleDir)
	}
	for _, k := range kinds {
		for _, u := range []*listUniverse{u1, u2} {
			plans = append(plans, listPlan{cfg: drv.Config{Kind: k}, u: u, depth: depth})
		}
	}
	if quick(c) {
		// one real-directory world also in the quick tier (ENOTDIR and friends only exist there)
		plans = append(plans, listPlan{cfg: drv.Config{Kind: drv.MultiDir}, u: u2, depth: depth - 1}, listPlan{cfg: drv.Config{Kind: drv.SingleDir}, u: u2, depth: depth - 1})
	}
	// upper/lower case of the same letter: byte order is not case-folded order
	uc := newListUniverse("Aa/", 3, 3, "a", 7)
	for _, k := range []drv.Kind{drv.Mem, drv.Bolt, drv.MultiMem} {
		plans = append(plans, listPlan{cfg: drv.Config{Kind: k}, u: uc, depth: depth - 1})
	}
	// segments that start with a dot (hidden-file style names) on the fs layouts
	ud := newListUniverse(".a/", 3, 3, "a", 9)
	ud.keys = []string{".a", ".a/.a/a", ".a/a", ".a/a/.a", "..a", "..a/a", "a", "a.", "a/.a"}
	ud.prefixes = append(ud.prefixes, ".a/.", ".a/a", ".a/.a/", ".a/a/", "..a", "..a/", "a/.a")
	for _, k := range []drv.Kind{drv.MultiMem, drv.SingleMem} {
		plans = append(plans, listPlan{cfg: drv.Config{Kind: k}, u: ud, depth: depth - 1})
	}
	// richer keys: characters that need XML or URL escaping in a listing, multi-byte UTF-8
	// (byte order differs from code-point/collation order), spaces, plus and percent signs
	ur := newListUniverse("ab/", 1, 3, "a", 0)
	ur.name = "rich"
	ur.keys = []string{"a b", "a%2Fb", "a&b", "a+b", "a;b", "a<b>", "a\"b'", "a/é", "a/日", "a/\U0001F600x", "z", "é", "é/a&b", "€", "\U0001F600"}
	sort.Strings(ur.keys)
	ur.prefixes = []string{"", "a", "a ", "a%", "a&", "a+", "a<", "a\"", "a/", "a/é", "z", "é", "é/", "é/a&", "€", "\U0001F600", "\xc3"}
	for _, k := range []drv.Kind{drv.Mem, drv.Bolt, drv.MultiMem, drv.SingleMem} {
		plans = append(plans, listPlan{cfg: drv.Config{Kind: k}, u: ur, depth: depth - 1})
	}
	// keys with characters XML 1.0 cannot carry (control characters, U+FFFE): legal S3 keys
	if prop == "C03" {
		ux := newListUniverse("ab/", 1, 2, "a", 0)
		ux.name = "xml-unrepresentable"
		ux.keys = []string{"a", "a\x01b", "a\uFFFEb", "a\xffb"} // the last one is not UTF-8 at all: no S3 key (the server may refuse it)
		ux.prefixes = []string{"", "a"}
		plans = append(plans, listPlan{cfg: drv.Config{Kind: drv.Mem}, u: ux, depth: 2}, listPlan{cfg: drv.Config{Kind: drv.MultiMem}, u: ux, depth: 2})
	}
	// versioned variant (delete-marked keys): version stacks grow with depth, so a smaller universe
	plans = append(plans, listPlan{cfg: drv.Config{Kind: drv.Mem}, u: newListUniverse("ab/", 3, 3, "a", 6), versioned: true, depth: depth})
	// ... and with versioning suspended and re-enabled in between: a deleted key stays deleted
	if prop == "C03" {
		plans = append(plans, listPlan{cfg: drv.Config{Kind: drv.Mem}, u: newListUniverse("ab/", 3, 2, "a", 3), versioned: true, toggles: true, depth: depth})
	}
	if prop == "C04" {
		// keys whose base64 form uses the characters that differ between the standard and the URL alphabet
		plans = append(plans, listPlan{cfg: drv.Config{Kind: drv.Mem}, u: newListUniverse("a~/", 3, 3, "a", 8), depth: depth - 1})
		plans = append(plans, listPlan{cfg: drv.Config{Kind: drv.Bolt, FailOnUnimplPage: true}, u: u1, depth: depth - 1})
		plans = append(plans, listPlan{cfg: drv.Config{Kind: drv.MultiMem, FailOnUnimplPage: true}, u: u1, depth: depth - 1})
	}
	return plans
}

func runList(c *engine.Ctx, prop string) {
	var foreign int64
	plans := listPlans(c, prop)
	c.SpecBudget = c.Budget() / time.Duration(len(plans))
	for i, pl := range plans {
		pl := pl
		// what the quick plans leave of their share goes to the later, larger ones
		c.SpecBudget = time.Until(c.Deadline) / time.Duration(len(plans)-i)
		name := prop + "/" + worldName(pl.cfg) + "/" + pl.u.name
		if pl.versioned {
			name += "/versioned"
		}
		if pl.toggles {
			name += "+suspend"
		}
		engine.RunSeq(c, engine.SeqSpec{Name: name, World: worldName(pl.cfg), MaxDepth: pl.depth,
			New: func() (engine.Sys, error) {
				s, err := newListSys(pl.cfg, pl.u, prop, pl.versioned)
				if err == nil && pl.versioned {
					s.status = "Enabled"
					s.toggles = pl.toggles
					s.ever = map[string]bool{}
					s.era = map[string]string{}
				}
				if err != nil {
					return nil, err
				}
				s.foreign = &foreign
				return s, nil
			}})
		c.Bounds[name] = map[string]interface{}{"keys": pl.u.keys, "prefixes": len(pl.u.prefixes), "live_set_max": pl.u.maxLive, "history_depth": pl.depth, "versioned": pl.versioned}
	}
}

// c04FolderObjects: keys that end with the delimiter ("folder objects", created by consoles
// and by form uploads) next to keys below them. What such a listing contains is left to the
// server (the statement's side conditions); its pages must add up to its own unpaginated answer.
func c04FolderObjects(c *engine.Ctx) {
	w, err := drv.NewWorld(drv.Config{Kind: drv.Mem})
	if err != nil {
		engine.HarnessError("C04: %v", err)
	}
	defer w.Close()
	w.Do(drv.Req{Method: "PUT", Path: "/aaa"})
	keys := []string{"docs/", "docs/img/", "docs/img/a", "docs/img/b", "docs/z", "e", "f/"}
	for _, k := range keys {
		// (a PUT path would lose the trailing slash: the Go API stores the key as it is)
		if _, err := w.Backend.PutObject("aaa", k, map[string]string{}, strings.NewReader("v"), 1); err != nil {
			engine.HarnessError("C04 folder objects: %v", err)
		}
	}
	for _, p := range []string{"", "docs/", "docs/img/", "docs/i", "f"} {
		base := drv.Q("delimiter", "/")
		if p != "" {
			base = joinQ(drv.Q("prefix", p), base)
		}
		full := w.List("aaa", base)
		c.Add(1, 1, 1, 1)
		if full.Status != 200 {
			continue
		}
		ref := mergePage(full)
		for mk := 1; mk <= len(ref.names)+1; mk++ {
			for _, v2 := range []bool{false, true} {
				var got []string
				cont, trace := "", ""
				for page := 0; ; page++ {
					q := joinQ(base, "max-keys="+strconv.Itoa(mk))
					if v2 {
						q = joinQ(q, "list-type=2")
					}
					q = joinQ(q, cont)
					lp := w.List("aaa", q)
					c.Add(0, 0, 0, 1)
					ps := mergePage(lp)
					trace += fmt.Sprintf(" | %q trunc=%v", ps.names, lp.IsTruncated)
					if lp.Status != 200 || lp.Panic != "" || len(ps.names) > mk || page > len(ref.names)+2 {
						got = append(got, fmt.Sprintf("<page %d: status %d, %d entries>", page, lp.Status, len(ps.names)))
						break
					}
					got = append(got, ps.names...)
					if !lp.IsTruncated {
						break
					}
					switch {
					case v2 && lp.NextToken != "":
						cont = drv.Q("continuation-token", lp.NextToken)
					case !v2 && lp.NextMarker != "":
						cont = drv.Q("marker", lp.NextMarker)
					default:
						got = append(got, "<truncated without a continuation>")
					}
					if strings.HasPrefix(got[len(got)-1], "<") {
						break
					}
				}
				gs, rs := append([]string{}, got...), append([]string{}, ref.names...)
				sort.Strings(gs)
				sort.Strings(rs)
				if strings.Join(gs, "\x00") != strings.Join(rs, "\x00") {
					api := "V1"
					if v2 {
						api = "V2"
					}
					c.Report(&engine.Violation{Sig: sig("C04", "mem", "walk", "pages-differ-from-unpaginated", "folder-objects", api), World: "mem", History: []string{fmt.Sprintf("keys %q", keys), "GET /aaa?" + base + "&max-keys=" + strconv.Itoa(mk)},
						Msg: fmt.Sprintf("keys %q, GET /aaa?%s, max-keys=%d: pages%s add up to %q, the unpaginated listing is %q", keys, base, mk, trace, got, ref.names)})
					return
				}
			}
		}
	}
	c.Bounds["folder_object_keys"] = keys
}

func init() {
	Registry["C03"] = func(c *engine.Ctx) {
		c.Rule = "state = canonical snapshot of the bucket after a put/delete history (live set + raw storage residue); evaluation = one ListObjects request (prefix x delimiter x V1|V2) compared with the A.2 grouping oracle; distinct_nontrivial = distinct canonical states"
		c.Assumptions = append(c.Assumptions, "keys over a 3-letter alphabet containing the delimiter, length <= 3; prefixes likewise", "fs worlds: live sets in which no key is a directory of another (C10 covers clashes)")
		runList(c, "C03")
	}
	Registry["C04"] = func(c *engine.Ctx) {
		c.Rule = "state = canonical snapshot of the bucket after a put/delete history; evaluation = one page request of a complete paginated walk (prefix, delimiter, max-keys 1..n+1, start marker, V1|V2) followed to IsTruncated=false, or one fallback listing on non-paginating backends; distinct_nontrivial = distinct canonical states"
		c.Assumptions = append(c.Assumptions, "a truncated page followed by an empty final page is allowed", "a common prefix whose key group straddles a client-invented start marker may or may not be reported")
		runList(c, "C04")
		if c.Replay == nil {
			bigObjects(c)
			c04FolderObjects(c)
		}
	}
}
