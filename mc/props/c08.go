package props

import (
	"crypto/md5"
	"encoding/base64"
	"errors"
	"fmt"
	"io"
	"strconv"
	"strings"

	"verifmc/drv"
	"verifmc/engine"
	"verifmc/model"
)

// C08 — rejected uploads never change state (inputmc, faults enumerated).

type c08Case struct {
	kind      drv.Kind
	target    string // object | part
	start     string // absent | existing | pending-part
	md5       string // absent | correct | wrong | not-base64 | short15 | long17 | empty
	declLen   string // exact | plus1 | missing | negative | nonnumeric
	framing   string // plain | chunked | chunked-dec+1 | chunked-dec-1
	integrity bool
	keyLen    int // 0 = default key
	metaUser  int // 0 = none; else total bytes of user metadata (key+value)
	metaLimit int
	faultAt   int    // -1 = none
	faultKind string // eof | unexpected-eof | reset
	empty     bool   // zero-length body (Content-Length: 0)
	big       bool   // 1 MiB + 4 KiB body (beyond any buffering threshold a backend may have)
}

func (cs c08Case) String() string {
	s := fmt.Sprintf("%s target=%s start=%s md5=%s len=%s framing=%s integrity=%v keylen=%d meta=%d/%d fault=%d/%s",
		cs.kind, cs.target, cs.start, cs.md5, cs.declLen, cs.framing, cs.integrity, cs.keyLen, cs.metaUser, cs.metaLimit, cs.faultAt, cs.faultKind)
	if cs.empty {
		s += " body=empty"
	}
	if cs.big {
		s += " body=1MiB+4KiB"
	}
	return s
}

var errReset = errors.New("read tcp: connection reset by peer")

func runC08(c *engine.Ctx) {
	c.Rule = "case = one upload (PUT object or upload-part) from three complete factor products: Content-MD5 form x declared length x framing x integrity x start state x backend; key length x metadata size x limit; body-reader fault position j=0..len x fault kind x digest; oracle: accepted exactly when digest/length/limits allow, rejected with an applicable S3 code, and after every rejected upload the full snapshot (object, metadata, listing, pending upload parts) equals the snapshot before; distinct_nontrivial = distinct rejected cases whose state was verified unchanged"
	c.Assumptions = append(c.Assumptions, "which code a doubly-invalid request gets is not fixed (any applicable code)", "a plain body longer than its declared length cannot be produced through net/http and is not generated", "metadata limit: user metadata >= limit must be rejected, total <= limit-200 must be accepted, in between only 'rejected => MetadataTooLarge and unchanged'")
	kinds := drv.AllKinds
	var cases []c08Case
	for _, k := range kinds {
		for _, target := range []string{"object", "part"} {
			starts := []string{"absent", "existing"}
			if target == "part" {
				starts = []string{"absent", "pending-part"}
			}
			for _, st := range starts {
				for _, m := range []string{"absent", "correct", "wrong", "not-base64", "short15", "long17", "empty", "correct+wrong-on-a-second-line"} {
					for _, dl := range []string{"exact", "plus1", "missing", "negative", "nonnumeric"} {
						framings := []string{"plain"}
						if dl == "exact" {
							// (parts are sent with the aws-chunked framing like whole objects)
							framings = []string{"plain", "chunked", "chunked-dec+1", "chunked-dec-1", "chunked-dec=-1"}
						} else if dl == "plus1" {
							// a complete aws-chunked stream in a body that ends before its Content-Length
							framings = []string{"plain", "chunked"}
						}
						for _, fr := range framings {
							for _, integ := range []bool{true, false} {
								cases = append(cases, c08Case{kind: k, target: target, start: st, md5: m, declLen: dl, framing: fr, integrity: integ, faultAt: -1})
							}
						}
					}
				}
				// zero-length bodies: the digest and framing rules apply to them too
				{
					efr := []string{"plain", "chunked", "chunked-dec+1"}

					for _, m := range []string{"absent", "correct", "wrong", "not-base64", "short15", "long17", "empty"} {
						for _, fr := range efr {
							for _, integ := range []bool{true, false} {
								cases = append(cases, c08Case{kind: k, target: target, start: st, md5: m, declLen: "exact", framing: fr, integrity: integ, faultAt: -1, empty: true})
							}
						}
					}
				}
				// large bodies: every way of being rejected, plus the valid upload
				if target == "object" {
					const bigLen = 1<<20 + 4096
					for _, bc := range []c08Case{
						{md5: "correct", declLen: "exact", framing: "plain", faultAt: -1},
						{md5: "wrong", declLen: "exact", framing: "plain", faultAt: -1},
						{md5: "absent", declLen: "plus1", framing: "plain", faultAt: -1},
						{md5: "absent", declLen: "exact", framing: "chunked", faultAt: -1},
						{md5: "absent", declLen: "exact", framing: "chunked-dec+1", faultAt: -1},
						{md5: "absent", declLen: "exact", framing: "chunked-dec-1", faultAt: -1},
						{md5: "wrong", declLen: "exact", framing: "chunked", faultAt: -1},
						{md5: "absent", declLen: "exact", framing: "plain", faultAt: 0, faultKind: "eof"},
						{md5: "absent", declLen: "exact", framing: "plain", faultAt: bigLen / 2, faultKind: "eof"},
						{md5: "absent", declLen: "exact", framing: "plain", faultAt: bigLen - 1, faultKind: "reset"},
						{md5: "correct", declLen: "exact", framing: "plain", faultAt: bigLen - 1, faultKind: "unexpected-eof"},
					} {
						bc.kind, bc.target, bc.start, bc.integrity, bc.big = k, target, st, true, true
						cases = append(cases, bc)
					}
				}
				// the reader delivers every declared byte and then fails instead of ending:
				// whatever the server makes of that, a wrong digest must still be refused
				for _, fk := range []string{"unexpected-eof", "reset"} {
					for _, m := range []string{"absent", "correct", "wrong"} {
						cases = append(cases, c08Case{kind: k, target: target, start: st, md5: m, declLen: "exact", framing: "plain", integrity: true, faultAt: 12, faultKind: fk})
					}
				}
				// faults
				for j := 0; j <= 12; j++ {
					for _, fk := range []string{"eof", "unexpected-eof", "reset"} {
						for _, m := range []string{"absent", "correct"} {
							cases = append(cases, c08Case{kind: k, target: target, start: st, md5: m, declLen: "exact", framing: "plain", integrity: true, faultAt: j, faultKind: fk})
						}
					}
				}
			}
		}
		// limits
		for _, st := range []string{"absent", "existing"} {
			for _, kl := range []int{1023, 1024, 1025} {
				if kl <= 1024 && k.IsFs() {
					continue
				}
				cases = append(cases, c08Case{kind: k, target: "object", start: st, md5: "absent", declLen: "exact", framing: "plain", integrity: true, keyLen: kl, faultAt: -1})
			}
			for _, lim := range []int{2000, 500} {
				for _, mu := range []int{lim - 200, lim - 1, lim, lim + 1, lim + 300} {
					cases = append(cases, c08Case{kind: k, target: "object", start: st, md5: "absent", declLen: "exact", framing: "plain", integrity: true, metaUser: mu, metaLimit: lim, faultAt: -1})
				}
			}
		}
	}
	c.Bounds["cases"] = len(cases)
	engine.ParallelFor(len(cases), func(_, i int) {
		cs := cases[i]
		reason, outcome, msg := c08Run(c, cs)
		c.Add(0, 1, 1, 0)
		c.Count(string(cs.kind), "uploads", 1)
		if outcome == "" {
			if reason != "" {
				c.Distinct(cs.String())
			}
			return
		}
		c.Report(&engine.Violation{Sig: sig("C08", backendClass(cs.kind), cs.target, reason, outcome, "start="+cs.start), World: string(cs.kind), History: []string{cs.String()}, Msg: cs.String() + ": " + msg})
	})
	c.Add(int64(len(cases)), 0, 0, 0)
	c08KeyLimits(c, kinds)
	c08FormDigest(c, kinds)
	c.AddSample(map[string]interface{}{"case": cases[7].String()})
	c.AddSample(map[string]interface{}{"case": cases[len(cases)/2].String()})
}

// c08Run returns (reason the upload is invalid or "", outcome "" if fine, message).
func c08Run(c *engine.Ctx, cs c08Case) (string, string, string) {
	cfg := drv.Config{Kind: cs.kind, NoIntegrity: !cs.integrity}
	if cs.metaLimit != 0 && cs.metaLimit != 2000 {
		cfg.MetaLimit = cs.metaLimit
	}
	w, err := drv.NewWorld(cfg)
	if err != nil {
		engine.HarnessError("C08: %v", err)
	}
	defer w.Close()
	if !cs.kind.IsSingle() {
		w.Do(drv.Req{Method: "PUT", Path: "/aaa"})
	}
	key := "dir/k"
	if cs.keyLen > 0 {
		key = strings.Repeat("k", cs.keyLen)
	}
	body := []byte("hello-body12")
	if cs.empty {
		body = []byte{}
	}
	if cs.big {
		body = make([]byte, 1<<20+4096)
		for i := range body {
			body[i] = byte('a' + i%23)
		}
	}
	old := []byte("the-old-content")
	uploadID := ""
	switch cs.start {
	case "existing":
		if r := w.Do(drv.Req{Method: "PUT", Path: "/aaa/" + key, Body: old, Header: drv.H("x-amz-meta-keep", "kept", "Content-Type", "text/old")}); r.Status != 200 && cs.keyLen <= 1024 {
			return "setup", "setup", "existing object: " + r.Short()
		}
	}
	if cs.target == "part" {
		r := w.Do(drv.Req{Method: "POST", Path: "/aaa/" + key, Query: "uploads"})
		if n := r.XML(); n != nil {
			uploadID = n.T("UploadId")
		}
		if uploadID == "" {
			return "setup", "setup", "initiate: " + r.Short()
		}
		if cs.start == "pending-part" {
			w.Do(drv.Req{Method: "PUT", Path: "/aaa/" + key, Query: drv.Q("uploadId", uploadID, "partNumber", "1"), Body: old})
		}
	}
	before := c08Snap(w)

	// ---- build the request ----
	var reasons []string // applicable rejection codes
	req := drv.Req{Method: "PUT", Path: "/aaa/" + key}
	if cs.target == "part" {
		req.Query = drv.Q("uploadId", uploadID, "partNumber", "1")
	}
	sum := md5.Sum(body)
	switch cs.md5 {
	case "correct":
		req.Header = append(req.Header, [2]string{"Content-MD5", base64.StdEncoding.EncodeToString(sum[:])})
	case "wrong":
		bad := md5.Sum([]byte("other"))
		req.Header = append(req.Header, [2]string{"Content-MD5", base64.StdEncoding.EncodeToString(bad[:])})
		if cs.integrity {
			reasons = append(reasons, "BadDigest")
		}
	case "not-base64":
		req.Header = append(req.Header, [2]string{"Content-MD5", "!!!not-base64!!!"})
		if cs.integrity {
			reasons = append(reasons, "InvalidDigest")
		}
	case "short15":
		req.Header = append(req.Header, [2]string{"Content-MD5", base64.StdEncoding.EncodeToString(sum[:15])})
		if cs.integrity {
			reasons = append(reasons, "InvalidDigest")
		}
	case "long17":
		req.Header = append(req.Header, [2]string{"Content-MD5", base64.StdEncoding.EncodeToString(append(sum[:], 1))})
		if cs.integrity {
			reasons = append(reasons, "InvalidDigest")
		}
	case "empty":
		req.Header = append(req.Header, [2]string{"Content-MD5", ""})
		if cs.integrity {
			reasons = append(reasons, "InvalidDigest")
		}
	case "correct+wrong-on-a-second-line":
		// two header lines are one header with a list value: not a digest (and certainly not a matching one)
		bad := md5.Sum([]byte("other"))
		req.Header = append(req.Header, [2]string{"Content-MD5", base64.StdEncoding.EncodeToString(sum[:])}, [2]string{"Content-MD5", base64.StdEncoding.EncodeToString(bad[:])})
		if cs.integrity {
			reasons = append(reasons, "InvalidDigest", "BadDigest")
		}
	}
	wire := body
	switch cs.framing {
	case "chunked", "chunked-dec+1", "chunked-dec-1", "chunked-dec=-1":
		if cs.empty {
			wire = drv.EncodeChunked(body, nil)
		} else if cs.big {
			wire = drv.EncodeChunked(body, []int{1 << 16, 1<<20 - 1<<16, 4096})
		} else {
			wire = drv.EncodeChunked(body, []int{5, 7})
		}
		dec := len(body)
		if cs.framing == "chunked-dec+1" {
			dec++
			reasons = append(reasons, "IncompleteBody")
		} else if cs.framing == "chunked-dec-1" {
			dec--
			reasons = append(reasons, "IncompleteBody")
		} else if cs.framing == "chunked-dec=-1" {
			dec = -1 // a negative length is no length
			reasons = append(reasons, "IncompleteBody", "MissingContentLength", "InvalidArgument")
		}
		req.Header = append(req.Header, [2]string{"X-Amz-Content-Sha256", "STREAMING-AWS4-HMAC-SHA256-PAYLOAD"}, [2]string{"X-Amz-Decoded-Content-Length", strconv.Itoa(dec)})
	}
	noCode := false
	fr := drv.NewFrag(wire, nil, 0, false)
	switch cs.declLen {
	case "exact":
		req.DeclLen = ptr64(int64(len(wire)))
	case "plus1":
		req.DeclLen = ptr64(int64(len(wire) + 1))
		fr.Data = append(append([]byte{}, wire...), 0)
		fr.FailAt, fr.Err = len(wire), io.ErrUnexpectedEOF // what net/http delivers for a short body
		reasons = append(reasons, "IncompleteBody")
	case "missing":
		req.NoLength = true
		reasons = append(reasons, "MissingContentLength")
	case "negative":
		req.RawLen = "-5"
		if cs.target == "part" {
			reasons = append(reasons, "MissingContentLength")
		} else {
			noCode = true
		}
	case "nonnumeric":
		req.RawLen = "twelve"
		if cs.target == "part" {
			reasons = append(reasons, "MissingContentLength")
		} else {
			noCode = true
		}
	}
	lenient := false // accepted (and stored correctly) or refused (and unchanged) are both fine
	if cs.faultAt == len(wire) && cs.faultAt > 0 && cs.faultKind != "eof" && cs.faultKind != "" {
		fr.FailAt = len(wire)
		fr.Err = io.ErrUnexpectedEOF
		if cs.faultKind == "reset" {
			fr.Err = errReset
		}
		lenient = len(reasons) == 0
	}
	if cs.faultAt >= 0 && cs.faultAt < len(wire) {
		fr.FailAt = cs.faultAt
		switch cs.faultKind {
		case "eof":
			fr.Err = io.EOF
			reasons = append(reasons, "IncompleteBody")
			if cs.md5 == "correct" {
				reasons = append(reasons, "BadDigest")
			}
		case "unexpected-eof":
			fr.Err = io.ErrUnexpectedEOF
			reasons = append(reasons, "IncompleteBody", "InternalError")
		case "reset":
			fr.Err = errReset
			reasons = append(reasons, "InternalError", "IncompleteBody")
		}
	}
	req.BodyReader = fr
	if cs.keyLen > 1024 {
		reasons = append(reasons, "KeyTooLongError")
	}
	metaMust, metaMay := false, false
	if cs.metaUser > 0 {
		name := "x-amz-meta-big"
		req.Header = append(req.Header, [2]string{name, strings.Repeat("m", cs.metaUser-len(name))})
		if cs.metaUser >= cs.metaLimit {
			metaMust = true
			reasons = append(reasons, "MetadataTooLarge")
		} else if cs.metaUser > cs.metaLimit-200 {
			metaMay = true
		}
	}
	invalid := len(reasons) > 0 || noCode
	reason := ""
	if invalid {
		reason = strings.ToLower(strings.Join(reasons, "+"))
		if noCode {
			reason = "bad-length+" + reason
		}
		reason = strings.TrimSuffix(reason, "+")
	}
	_ = metaMust

	r := w.Do(req)
	after := c08Snap(w)
	c.Add(0, 0, 0, 1)
	if r.Panic != "" {
		return reason, "panic@" + drv.PanicFrame(r.Panic), firstLine(r.Panic)
	}
	accepted := r.Status == 200
	if lenient && !invalid && !accepted {
		if before != after {
			return "failing-reader-after-last-byte", "state-changed", "refused upload changed state"
		}
		return "failing-reader-after-last-byte", "", ""
	}
	if !invalid {
		if metaMay && !accepted {
			if r.ErrCode() != "MetadataTooLarge" {
				return "near-metadata-limit", "wrong-code", "rejected with " + r.Short()
			}
			if before != after {
				return "near-metadata-limit", "state-changed", "rejected upload changed state"
			}
			return "near-metadata-limit", "", ""
		}
		if !accepted {
			return "valid", "rejected-valid", "valid upload answered " + r.Short()
		}
		// accepted: stored state must be the new body
		if cs.target == "object" {
			v := w.Get("aaa", key)
			if f, m := checkObjView(v, &model.Obj{Body: body, Meta: map[string]string{}}, false); f != "" {
				return "valid", "stored-" + f, m
			}
		} else {
			pp := w.ListParts("aaa", key, uploadID, "")
			if len(pp.Parts) != 1 || pp.Parts[0].Size != int64(len(body)) || pp.Parts[0].ETag != model.PartETag(body) {
				return "valid", "stored-part", fmt.Sprintf("ListParts after accepted part: %+v", pp.Parts)
			}
		}
		return "", "", ""
	}
	if accepted {
		return reason, "accepted", "invalid upload accepted with " + r.Short()
	}
	if before != after {
		return reason, "state-changed", fmt.Sprintf("rejected upload (%s) changed the stored state:\nbefore:\n%s\nafter:\n%s", r.Short(), before, after)
	}
	// The statement does not fix which code a rejected upload gets (only that it
	// is refused and changes nothing); a well-formed error answer is C09's
	// business. Require an error status only.
	if r.Status < 400 {
		return reason, "not-an-error-status", fmt.Sprintf("rejected upload answered %s (applicable codes: %v)", r.Short(), reasons)
	}
	return reason, "", ""
}

func init() { Registry["C08"] = runC08 }

// c08Snap: API snapshot + delimiter listing + raw storage (left-over directories of a rejected upload count).
// rawWithoutEmptyDirs is the raw storage dump without directories that hold no file: such a
// directory is the prefix of no key, is listed nowhere and (since a8f9fcd) refuses no key its
// name, so it is no part of the stored state a rejected upload must leave as it was.
func rawWithoutEmptyDirs(w *drv.World) string {
	lines := strings.Split(w.RawDump(), "\n")
	var files []string
	for _, l := range lines {
		if i := strings.Index(l, " F \""); i >= 0 {
			files = append(files, strings.SplitN(l[i+4:], "\"", 2)[0])
		}
	}
	var keep []string
	for _, l := range lines {
		if i := strings.Index(l, " D \""); i >= 0 {
			dir := strings.SplitN(l[i+4:], "\"", 2)[0]
			holds := dir == "" || dir == "/" || dir == "."
			for _, f := range files {
				if strings.HasPrefix(f, strings.TrimSuffix(dir, "/")+"/") {
					holds = true
				}
			}
			if !holds {
				continue // (an empty bucket's directory is in the API snapshot: the bucket is listed)
			}
		}
		keep = append(keep, l)
	}
	return strings.Join(keep, "\n")
}

func c08Snap(w *drv.World) string {
	s := w.Snapshot(drv.SnapOpts{Uploads: true, NoRaw: true}) + rawWithoutEmptyDirs(w)
	lp := w.List("aaa", "delimiter=%2F")
	return s + fmt.Sprintf("DELIM %d %v %v\n", lp.Status, lp.Prefixes, len(lp.Entries))
}

// c08KeyLimits: the 1024-byte key limit counts bytes, on every way of naming a
// key for an upload (PUT, copy destination, browser-form POST), also for
// multi-byte UTF-8 keys.
func c08KeyLimits(c *engine.Ctx, kinds []drv.Kind) {
	type kc struct {
		kind drv.Kind
		via  string // put | copy | form
		name string
		key  string
		long bool
	}
	var cases []kc
	for _, k := range kinds {
		for _, via := range []string{"put", "copy", "form", "multipart"} {
			cases = append(cases,
				kc{k, via, "ascii-1025-bytes", strings.Repeat("k", 1025), true},
				kc{k, via, "utf8-1025-bytes-513-chars", strings.Repeat("é", 512) + "a", true},
				kc{k, via, "utf8-1026-bytes-342-chars", strings.Repeat("€", 342), true})
			if !k.IsFs() {
				cases = append(cases, kc{k, via, "utf8-1024-bytes-512-chars", strings.Repeat("é", 512), false})
			}
			// a key within the 1024 bytes that a file system may still be unable to hold (a
			// segment longer than a file name), below directories that do not exist yet
			cases = append(cases, kc{k, via, "new-dirs+300-byte-segment", "newdir/sub/" + strings.Repeat("s", 300), false})
			cases = append(cases, kc{k, via, "new-dirs+300-byte-top-segment", strings.Repeat("t", 300), false})
			// ... or a directory segment that cannot exist, below one that is created first
			cases = append(cases, kc{k, via, "new-dirs+300-byte-middle-segment", "newdir/sub/" + strings.Repeat("s", 300) + "/leaf", false})
			cases = append(cases, kc{k, via, "new-dirs+nul-in-middle-segment", "newdir/sub/a\x00b/leaf", false})
			cases = append(cases, kc{k, via, "new-dirs+nul-in-leaf", "newdir/sub/a\x00b", false})
		}
	}
	engine.ParallelFor(len(cases), func(_, i int) {
		cs := cases[i]
		w, err := drv.NewWorld(drv.Config{Kind: cs.kind})
		if err != nil {
			engine.HarnessError("C08: %v", err)
		}
		defer w.Close()
		if !cs.kind.IsSingle() {
			w.Do(drv.Req{Method: "PUT", Path: "/aaa"})
		}
		w.Do(drv.Req{Method: "PUT", Path: "/aaa/src", Body: []byte("source")})
		if cs.via == "multipart" {
			// the bucket has had an upload before (its upload listing exists either way)
			if x := w.Do(drv.Req{Method: "POST", Path: "/aaa/warm-up", Query: "uploads"}).XML(); x != nil {
				w.Do(drv.Req{Method: "DELETE", Path: "/aaa/warm-up", Query: drv.Q("uploadId", x.T("UploadId"))})
			}
		}
		before := c08Snap(w)
		body := []byte("payload")
		var r drv.Resp
		switch cs.via {
		case "multipart":
			// the last answer counts; an upload refused on the way is over
			r = w.Do(drv.Req{Method: "POST", Path: "/aaa/" + cs.key, Query: "uploads"})
			if x := r.XML(); r.Status == 200 && x != nil {
				id := x.T("UploadId")
				r = w.Do(drv.Req{Method: "PUT", Path: "/aaa/" + cs.key, Query: drv.Q("uploadId", id, "partNumber", "1"), Body: body})
				if r.Status == 200 {
					r = w.Do(drv.Req{Method: "POST", Path: "/aaa/" + cs.key, Query: drv.Q("uploadId", id), Body: completeBody([]model.CPart{{N: 1, ETag: model.PartETag(body)}})})
				}
				if r.Status >= 300 {
					w.Do(drv.Req{Method: "DELETE", Path: "/aaa/" + cs.key, Query: drv.Q("uploadId", id)})
				}
			}
		case "put":
			r = w.Do(drv.Req{Method: "PUT", Path: "/aaa/" + cs.key, Body: body})
		case "copy":
			body = []byte("source")
			r = w.Do(drv.Req{Method: "PUT", Path: "/aaa/" + cs.key, Header: drv.H("X-Amz-Copy-Source", "/aaa/src")})
		case "form":
			fb, ct := formBody(cs.key, body, nil)
			r = w.Do(drv.Req{Method: "POST", Path: "/aaa", Header: drv.H("Content-Type", ct), Body: fb})
		}
		c.Add(1, 1, 1, 1)
		hist := []string{fmt.Sprintf("%s via=%s key=%s", cs.kind, cs.via, cs.name)}
		report := func(field, msg string) {
			c.Report(&engine.Violation{Sig: sig("C08", backendClass(cs.kind), "key-limit", cs.via, cs.name, field), World: string(cs.kind), History: hist, Msg: hist[0] + ": " + msg})
		}
		if r.Panic != "" {
			report("panic@"+drv.PanicFrame(r.Panic), firstLine(r.Panic))
			return
		}
		if cs.long {
			if r.Status < 400 {
				report("accepted", "a key of more than 1024 bytes was accepted with "+r.Short())
				return
			}
			if after := c08Snap(w); after != before {
				report("state-changed", "the rejected upload ("+r.Short()+") changed the stored state")
				return
			}
			c.Distinct(hist[0])
			return
		}
		if r.Status >= 300 && strings.HasPrefix(cs.name, "new-dirs") {
			// the backend may be unable to store it; then nothing may be left behind
			if after := c08Snap(w); after != before {
				report("state-changed", "the refused upload ("+r.Short()+") changed the stored state:\nbefore:\n"+before+"\nafter:\n"+after)
				return
			}
			// ... and the keys above it are as storable as they were
			if strings.HasPrefix(cs.key, "newdir/") {
				if p := w.Do(drv.Req{Method: "PUT", Path: "/aaa/newdir", Body: []byte("n")}); p.Status != 200 {
					report("sibling-key-unstorable", "after the refused upload PUT /aaa/newdir answers "+p.Short())
					return
				}
				w.Do(drv.Req{Method: "DELETE", Path: "/aaa/newdir"})
			}
			// the key was never stored: it reads as absent and deleting it is a no-op
			if g := w.Do(drv.Req{Method: "GET", Path: "/aaa/" + cs.key}); g.Status != 404 {
				report("never-stored-key-get", "GET of the key that could not be stored answers "+g.Short()+", want 404 NoSuchKey")
			} else if d := w.Do(drv.Req{Method: "DELETE", Path: "/aaa/" + cs.key}); d.Status != 204 {
				report("never-stored-key-delete", "DELETE of the key that could not be stored answers "+d.Short()+", want 204")
			}
			return
		}
		if r.Status >= 300 {
			report("rejected-valid", "a key of exactly 1024 bytes was refused with "+r.Short())
			return
		}
		if v := w.Get("aaa", cs.key); v.Status != 200 || string(v.Body) != string(body) {
			report("stored", "GET of the accepted key answers "+v.String())
		}
	})
	c.Bounds["key_limit_cases"] = len(cases)
}

// c08FormDigest: a browser-form upload that carries a Content-MD5 field is an upload that
// carries a Content-MD5.
func c08FormDigest(c *engine.Ctx, kinds []drv.Kind) {
	type fc struct {
		kind  drv.Kind
		md5   string // correct | wrong | not-base64 | short15
		integ bool
		start string
	}
	var cases []fc
	for _, k := range kinds {
		for _, m := range []string{"correct", "wrong", "not-base64", "short15", "correct-but-body-short-of-content-length"} {
			for _, integ := range []bool{true, false} {
				for _, st := range []string{"absent", "existing"} {
					cases = append(cases, fc{k, m, integ, st})
				}
			}
		}
	}
	engine.ParallelFor(len(cases), func(_, i int) {
		cs := cases[i]
		w, err := drv.NewWorld(drv.Config{Kind: cs.kind, NoIntegrity: !cs.integ})
		if err != nil {
			engine.HarnessError("C08: %v", err)
		}
		defer w.Close()
		if !cs.kind.IsSingle() {
			w.Do(drv.Req{Method: "PUT", Path: "/aaa"})
		}
		if cs.start == "existing" {
			w.Do(drv.Req{Method: "PUT", Path: "/aaa/dir/f", Body: []byte("the-old-content"), Header: drv.H("x-amz-meta-keep", "kept")})
		}
		before := c08Snap(w)
		body := []byte("form-body-12")
		sum := md5.Sum(body)
		field := base64.StdEncoding.EncodeToString(sum[:])
		switch cs.md5 {
		case "wrong":
			o := md5.Sum([]byte("other"))
			field = base64.StdEncoding.EncodeToString(o[:])
		case "not-base64":
			field = "!!!not-base64!!!"
		case "short15":
			field = base64.StdEncoding.EncodeToString(sum[:15])
		}
		fb, ct := formBody("dir/f", body, map[string]string{"Content-MD5": field})
		freq := drv.Req{Method: "POST", Path: "/aaa", Header: drv.H("Content-Type", ct), Body: fb}
		if cs.md5 == "correct-but-body-short-of-content-length" {
			// the complete form in a request body that ends 10 bytes before its Content-Length
			fr := drv.NewFrag(append(append([]byte{}, fb...), make([]byte, 10)...), nil, 0, false)
			fr.FailAt, fr.Err = len(fb), io.ErrUnexpectedEOF // what net/http delivers for a short body
			freq.Body, freq.BodyReader, freq.DeclLen = nil, fr, ptr64(int64(len(fb)+10))
		}
		r := w.Do(freq)
		c.Add(1, 1, 1, 1)
		hist := []string{fmt.Sprintf("%s form upload Content-MD5=%s integrity=%v start=%s", cs.kind, cs.md5, cs.integ, cs.start)}
		report := func(field, msg string) {
			c.Report(&engine.Violation{Sig: sig("C08", backendClass(cs.kind), "form-digest", cs.md5, field, "start="+cs.start), World: string(cs.kind), History: hist, Msg: hist[0] + ": " + msg})
		}
		if r.Panic != "" {
			report("panic@"+drv.PanicFrame(r.Panic), firstLine(r.Panic))
			return
		}
		mustReject := (cs.integ && cs.md5 != "correct") || cs.md5 == "correct-but-body-short-of-content-length"
		if mustReject {
			if r.Status < 400 {
				report("accepted", "accepted with "+r.Short()+" although the digest does not match")
			} else if after := c08Snap(w); after != before {
				report("state-changed", "refused ("+r.Short()+") but the stored state changed")
			} else {
				c.Distinct(hist[0])
			}
			return
		}
		if r.Status >= 300 {
			report("rejected-valid", "refused with "+r.Short())
			return
		}
		if v := w.Get("aaa", "dir/f"); v.Status != 200 || string(v.Body) != string(body) {
			report("stored", "GET answers "+v.String())
		}
	})
	c.Bounds["form_digest_cases"] = len(cases)
}
