package props

import (
	"fmt"
	"io"

	"github.com/johannesboyne/gofakes3"

	"verifmc/drv"
	"verifmc/engine"
)

// c11GoAPI: the backends' own GetObject/HeadObject with a range request, the
// way an embedding program calls them: one *ObjectRangeRequest value used for
// several reads (objects of different sizes, in both orders) must give each
// read what a request value of its own gives it. Differential oracle, no
// expected value written by hand; the HTTP grid above fixes what a fresh
// request answers.
func c11GoAPI(c *engine.Ctx, kinds []drv.Kind, N int64) {
	type rq struct {
		start, end int64
		fromEnd    bool
	}
	var rqs []rq
	for s := int64(0); s <= N+1; s++ {
		for e := int64(-1); e <= N+1; e++ {
			if e != gofakes3.RangeNoEnd && e < s {
				continue
			}
			rqs = append(rqs, rq{s, e, false})
		}
		rqs = append(rqs, rq{s, gofakes3.RangeNoEnd, true})
	}
	c.Bounds["go_api_range_requests"] = len(rqs)
	for _, kind := range kinds {
		w, err := drv.NewWorld(drv.Config{Kind: kind})
		if err != nil {
			engine.HarnessError("C11: %v", err)
		}
		if !kind.IsSingle() {
			w.Do(drv.Req{Method: "PUT", Path: "/aaa"})
		}
		for sz := int64(0); sz <= N; sz++ {
			b := make([]byte, sz)
			for i := range b {
				b[i] = byte('a' + i)
			}
			if r := w.Do(drv.Req{Method: "PUT", Path: fmt.Sprintf("/aaa/o%d", sz), Body: b}); r.Status != 200 {
				engine.HarnessError("C11 setup put: %s", r.Short())
			}
		}
		read := func(sz int64, r *gofakes3.ObjectRangeRequest) (out string) {
			defer func() {
				if p := recover(); p != nil {
					out = fmt.Sprintf("panic: %v", p)
				}
			}()
			o, err := w.Backend.GetObject("aaa", fmt.Sprintf("o%d", sz), r)
			if err != nil {
				return "error: " + err.Error()
			}
			body, _ := io.ReadAll(o.Contents)
			o.Contents.Close()
			rg := "whole"
			if o.Range != nil {
				rg = fmt.Sprintf("%d+%d", o.Range.Start, o.Range.Length)
			}
			return fmt.Sprintf("%q range=%s size=%d", body, rg, o.Size)
		}
		var n int64
	cases:
		for _, q := range rqs {
			for s1 := int64(0); s1 <= N; s1++ {
				for s2 := int64(0); s2 <= N; s2++ {
					if s1 == s2 {
						continue
					}
					shared := &gofakes3.ObjectRangeRequest{Start: q.start, End: q.end, FromEnd: q.fromEnd}
					read(s1, shared)
					got := read(s2, shared)
					want := read(s2, &gofakes3.ObjectRangeRequest{Start: q.start, End: q.end, FromEnd: q.fromEnd})
					n += 3
					if got != want {
						c.Report(&engine.Violation{Sig: sig("C11", "any", "go-api", "request-value-reused", "-"), World: string(kind),
							History: []string{fmt.Sprintf("GetObject(o%d, rq{%d,%d,%v}) then GetObject(o%d, the same rq)", s1, q.start, q.end, q.fromEnd, s2)},
							Msg: fmt.Sprintf("on %s, a range request {Start:%d End:%d FromEnd:%v} first used on an object of %d bytes then gives %s for the object of %d bytes; a request value of its own gives %s",
								kind, q.start, q.end, q.fromEnd, s1, got, s2, want)})
						break cases
					}
				}
			}
		}
		c.Add(0, n, n, n)
		c.Count(string(kind)+"+go-api", "requests", n)
		w.Close()
	}
}
