package props

import (
	"fmt"
	"strconv"
	"strings"

	"github.com/spf13/afero"

	"verifmc/drv"
	"verifmc/engine"
)

// C09, environment deviations: the storage fails. For every route and start
// state on the filesystem backends the request is first run fault-free to
// count the file-system operations it performs (n), then once per k < n on a
// fresh world in which exactly the k-th operation fails with EIO. Oracle: the
// handler returns, does not panic, an error answer is a well-formed S3 error,
// and once the storage works again the canary sequence behaves (the server is
// not wedged and other buckets are untouched). What the failed request left
// behind in its own bucket and key is not judged here.
func c09StorageFaults(c *engine.Ctx) {
	routes := c09Routes()
	// reads of a part of an object (seek + read) and of a suffix
	routes = append(routes,
		gReq{route: "get-object-range", method: "GET", path: "/aaa/k", header: []kv{{"Range", "bytes=2-5"}}},
		gReq{route: "get-object-suffix", method: "GET", path: "/aaa/k", header: []kv{{"Range", "bytes=-3"}}})
	states := []c09State{{name: "objects", setup: c09SetupObjects}, {name: "uploads", setup: c09SetupUploads}}
	kinds := []drv.Kind{drv.MultiMem, drv.SingleMem}
	if !quick(c) {
		kinds = append(kinds, drv.MultiDir, drv.SingleDir)
	}
	type job struct {
		kind  drv.Kind
		state c09State
		base  gReq
	}
	var jobs []job
	for _, k := range kinds {
		for _, st := range states {
			for _, r := range routes {
				jobs = append(jobs, job{k, st, r})
			}
		}
	}
	newWorld := func(k drv.Kind, st c09State) (*drv.World, *drv.FaultPlan, map[string]string) {
		plan := drv.NewFaultPlan()
		wrap := func(fs afero.Fs) afero.Fs { return &drv.FaultFs{Fs: fs, P: plan} }
		w, err := drv.NewWorld(drv.Config{Kind: k, FsWrap: wrap, MetaFsWrap: wrap})
		if err != nil {
			engine.HarnessError("C09 faults: %v", err)
		}
		vars := map[string]string{"UID": "17", "UID2": "18", "VID": "3/NOVERSION", "VIDOLD": "3/NOVERSIONOLD", "VIDMARK": "3/NOMARK", "ETAGK": "\"none\"", "PETAG1": "\"p1\"", "PETAG5": "\"p5\""}
		if err := st.setup(w, vars); err != nil {
			engine.HarnessError("C09 faults setup %s/%s: %v", k, st.name, err)
		}
		return w, plan, vars
	}
	engine.ParallelFor(len(jobs), func(_, ji int) {
		if c.Expired() {
			return
		}
		jb := jobs[ji]
		w, plan, vars := newWorld(jb.kind, jb.state)
		plan.Arm(-1)
		ref, _ := doWithWatchdog(w, jb.base.build(vars))
		n := plan.Disarm()
		w.Close()
		c.Add(0, 1, 1, 1)
		for k := 0; k < n; k++ {
			w, plan, vars := newWorld(jb.kind, jb.state)
			pl := c09Plan{cfg: drv.Config{Kind: jb.kind}, state: jb.state}
			untouched := ""
			if !jb.kind.IsSingle() {
				untouched = c09Untouched(w)
			}
			plan.Arm(k)
			resp, returned := doWithWatchdog(w, jb.base.build(vars))
			plan.Disarm()
			failed := plan.Failed
			c.Add(0, 1, 1, 1)
			c.Count(string(jb.kind), "requests-with-storage-fault", 1)
			hist := []string{string(jb.kind), "state=" + jb.state.name, "base=" + jb.base.route, fmt.Sprintf("storage operation #%d (%s) of %d fails with EIO", k, failed, n), jb.base.String()}
			report := func(sigv, msg string) {
				c.Report(&engine.Violation{Sig: sigv, World: string(jb.kind), History: hist, Msg: msg + "\n  request: " + jb.base.String()})
			}
			switch {
			case !returned:
				report(sig("C09", "fs", "storage-fault", jb.base.route, "hang"), "handler did not return within 60 s")
			case resp.Panic != "":
				report(sig("C09", "fs", "storage-fault", "panic@"+drv.PanicFrame(resp.Panic)), "handler panicked: "+firstLine(resp.Panic))
			default:
				if resp.Status >= 400 && len(resp.Body) > 0 {
					nd, perr := drv.ParseXML(resp.Body)
					if perr != nil || nd.Name != "Error" || nd.T("Code") == "" {
						report(sig("C09", "fs", "storage-fault", "malformed-error-body", strconv.Itoa(resp.Status)), fmt.Sprintf("status %d with a body that is not an S3 error document: %q", resp.Status, clip(string(resp.Body), 120)))
						break
					}
				}
				// data integrity under a fault: a read that still answers with success must deliver
				// the bytes the fault-free read delivers (or a cut-off stream), never other bytes
				if jb.base.method == "GET" && strings.HasPrefix(jb.base.route, "get-object") && resp.Status >= 200 && resp.Status < 300 && ref.Status == resp.Status {
					got, want := string(resp.Body), string(ref.Body)
					n := 0
					for n < len(got) && n < len(want) && got[n] == want[n] {
						n++
					}
					rest := got[n:]
					if rest != "" && !strings.HasPrefix(rest, "<?xml") && !strings.HasPrefix(rest, "<Error") {
						report(sig("C09", "fs", "storage-fault", jb.base.route, "wrong-bytes-with-success", "failed-op="+failed),
							fmt.Sprintf("answered %s with body %q; the fault-free answer is %q (Content-Range %q)", resp.Short(), clip(got, 60), clip(want, 60), resp.Header.Get("Content-Range")))
						break
					}
				}
				if f, msg := c09Canary(w, pl, untouched); f != "" {
					report(sig("C09", "fs", "storage-fault", "canary", f, "failed-op="+failed), "after the request (answered "+resp.Short()+") and with the storage working again the canary failed: "+msg)
				}
			}
			w.Close()
			c.Distinct(fmt.Sprintf("fault|%s|%s|%d|%s", jb.base.route, failed, resp.Status, resp.ErrCode()))
		}
	})
	c.Bounds["storage_fault_jobs"] = len(jobs)
}
