package props

import (
	"fmt"
	"sort"
	"strconv"
	"strings"
	"time"

	"verifmc/drv"
	"verifmc/engine"
	"verifmc/model"
)

// C06 (multipart completion) and C14 (multipart bookkeeping listings) share
// one search over initiate / upload-part / complete / abort / put histories.

type mpOp struct {
	kind      string // initiate|part|complete|abort|put
	k         string
	meta      bool
	emptyMeta bool // initiate with the metadata header present but empty
	u         int  // index into the model's open uploads (initiation order)
	n         int
	body      string
	list      []model.CPart
	desc      string
}

func (o mpOp) String() string {
	switch o.kind {
	case "initiate":
		if o.meta {
			return "initiate " + o.k + " +meta"
		}
		if o.emptyMeta {
			return "initiate " + o.k + " +empty-meta"
		}
		return "initiate " + o.k
	case "part":
		return fmt.Sprintf("upload-part u%d #%d %q", o.u, o.n, o.body)
	case "complete", "complete-storefault":
		return fmt.Sprintf("complete u%d %s", o.u, o.desc)
	case "abort":
		return fmt.Sprintf("abort u%d", o.u)
	case "abort-wrongkey":
		return fmt.Sprintf("abort u%d via key %s", o.u, o.k)
	case "put":
		return fmt.Sprintf("put %s %q", o.k, o.body)
	case "part-badid", "abort-badid":
		return fmt.Sprintf("%s %s ?%s", o.kind, o.k, o.desc)
	case "part-refused":
		return fmt.Sprintf("part 1 of upload #%d, refused: %s", o.u, o.desc)
	case "initiate-nokey":
		return "initiate without a key"
	case "delete-object":
		return "delete " + o.k
	case "recreate-bucket":
		return "delete the bucket and create it again"
	case "delete-bucket-refused":
		return "delete the bucket (refused: not empty)"
	case "create-bucket-refused":
		return "create the bucket (refused: exists)"
	}
	return o.kind
}

type mpUniverse struct {
	keys     []string
	partNums []int
	bodies   []string
	maxOpen  int
	maxInit  int
	maxParts int
}

type mpSys struct {
	w           *drv.World
	m           *model.MPModel
	u           *mpUniverse
	prop        string
	bucket      string
	inits       int
	allIDs      map[string]bool
	last        string
	burned      bool
	searchInits int
	recreated   bool
	// fresh[key]: the object at key was created by a complete when no object was there, so
	// nothing can have been carried over into it (store-fault world)
	fresh map[string]bool
	// faulted: a complete has failed in the backend. What that may have done to the pending
	// upload is invisible until a later complete: part of the state key.
	faulted bool
	// faultedOver: what lay under the key when that happened (the failed request has read it)
	faultedOver string
}

const mpMetaKey = "x-amz-meta-up"

// newMPSysBurn starts from a non-initial uploader: n uploads have been initiated and aborted
// before the search begins, so that the ids handed out during the search cross the 9 -> 10
// boundary (upload ids are decimal counters compared as strings in places).
func newMPSysBurn(cfg drv.Config, u *mpUniverse, prop string, n int) (*mpSys, error) {
	s, err := newMPSys(cfg, u, prop)
	if err != nil {
		return nil, err
	}
	for i := 0; i < n; i++ {
		r := s.w.Do(drv.Req{Method: "POST", Path: "/aaa/burn", Query: "uploads"})
		x := r.XML()
		if x == nil {
			return nil, fmt.Errorf("setup burn: %s", r.Short())
		}
		id := x.T("UploadId")
		s.allIDs[id] = true
		if d := s.w.Do(drv.Req{Method: "DELETE", Path: "/aaa/burn", Query: drv.Q("uploadId", id)}); d.Status != 204 {
			return nil, fmt.Errorf("setup burn abort: %s", d.Short())
		}
	}
	if n > 0 {
		s.inits = 1 // the bucket has had uploads initiated (C14 precondition)
		s.burned = true
	}
	return s, nil
}

func newMPSys(cfg drv.Config, u *mpUniverse, prop string) (*mpSys, error) {
	w, err := drv.NewWorld(cfg)
	if err != nil {
		return nil, err
	}
	if !cfg.Kind.IsSingle() {
		if r := w.Do(drv.Req{Method: "PUT", Path: "/aaa"}); r.Status != 200 {
			w.Close()
			return nil, fmt.Errorf("setup: %s", r.Short())
		}
	}
	return &mpSys{w: w, m: model.NewMPModel(), u: u, prop: prop, bucket: "aaa", allIDs: map[string]bool{}}, nil
}

func (s *mpSys) Close() { s.w.Close() }
func (s *mpSys) Key() string {
	return drv.KeyOf(s.w.Snapshot(drv.SnapOpts{Uploads: true, Versions: s.w.Cfg.Kind == drv.Mem}) + fmt.Sprintf("inits=%d recreated=%v fresh=%v faulted=%v%s", min(s.inits, 1), s.recreated, s.fresh, s.faulted, s.faultedOver) + "MODEL " + s.renderModel())
}

func min(a, b int) int {
	if a < b {
		return a
	}
	return b
}

func descList(l []model.CPart, tag string) string {
	var p []string
	for _, c := range l {
		p = append(p, strconv.Itoa(c.N))
	}
	return "[" + strings.Join(p, ",") + "]" + tag
}

func (s *mpSys) completeLists(u *model.MUpload) []mpOp {
	var out []mpOp
	ns := u.PartNumbers()
	mk := func(nums []int) []model.CPart {
		var l []model.CPart
		for _, n := range nums {
			l = append(l, model.CPart{N: n, ETag: model.PartETag(u.Parts[n].Body)})
		}
		return l
	}
	add := func(l []model.CPart, tag string) {
		out = append(out, mpOp{kind: "complete", list: l, desc: descList(l, tag)})
	}
	if len(ns) == 0 {
		add([]model.CPart{{N: 1, ETag: model.PartETag([]byte("zz"))}}, " never-uploaded")
		return out
	}
	all := mk(ns)
	add(all, "")
	if len(ns) <= 3 {
		for mask := 1; mask < (1<<len(ns))-1; mask++ {
			var sub []int
			for i, n := range ns {
				if mask&(1<<i) != 0 {
					sub = append(sub, n)
				}
			}
			add(mk(sub), "")
		}
	}
	if len(ns) >= 2 && len(ns) <= 3 {
		// every out-of-order permutation
		var perm func(cur []int, rest []int)
		perm = func(cur []int, rest []int) {
			if len(rest) == 0 {
				sorted := true
				for i := 1; i < len(cur); i++ {
					if cur[i] < cur[i-1] {
						sorted = false
					}
				}
				if !sorted {
					add(mk(append([]int{}, cur...)), " out-of-order")
				}
				return
			}
			for i := range rest {
				nr := append(append([]int{}, rest[:i]...), rest[i+1:]...)
				perm(append(cur, rest[i]), nr)
			}
		}
		perm(nil, ns)
	} else if len(ns) > 3 {
		rev := make([]int, len(ns))
		for i, n := range ns {
			rev[len(ns)-1-i] = n
		}
		add(mk(rev), " out-of-order")
	}
	// a part number listed twice is not an ascending list
	add(mk([]int{ns[0], ns[0]}), " duplicate")
	if len(ns) >= 2 {
		add(mk([]int{ns[0], ns[0], ns[1]}), " duplicate")
		add(mk([]int{ns[0], ns[1], ns[1]}), " duplicate")
	}
	for _, miss := range []int{0, -1, 3, 10001} {
		if u.Parts[miss] != nil {
			continue
		}
		l := append([]model.CPart{}, all...)
		l = append(l, model.CPart{N: miss, ETag: model.PartETag([]byte("zz"))})
		sort.SliceStable(l, func(i, j int) bool { return l[i].N < l[j].N })
		add(l, " never-uploaded#"+strconv.Itoa(miss))
	}
	for _, n := range ns {
		if st := u.Parts[n].Stale; len(st) > 0 {
			l := mk(ns)
			for i := range l {
				if l[i].N == n {
					l[i].ETag = st[len(st)-1]
				}
			}
			add(l, " stale-etag#"+strconv.Itoa(n))
			break
		}
	}
	if len(ns) >= 2 && model.PartETag(u.Parts[ns[0]].Body) != model.PartETag(u.Parts[ns[1]].Body) {
		l := mk(ns)
		l[0].ETag, l[1].ETag = l[1].ETag, l[0].ETag
		add(l, " foreign-etag")
	}
	return out
}

func (s *mpSys) Ops() []engine.Op {
	var ops []engine.Op
	if len(s.m.Uploads) < s.u.maxOpen && s.searchInits < s.u.maxInit {
		for _, k := range s.u.keys {
			ops = append(ops, mpOp{kind: "initiate", k: k})
		}
		ops = append(ops, mpOp{kind: "initiate", k: s.u.keys[0], meta: true})
		ops = append(ops, mpOp{kind: "initiate-nokey"})
		if s.m.Objects[s.u.keys[0]] != nil && len(s.m.Uploads) == 0 {
			// over an existing object that has a value for the header (plain puts send one)
			ops = append(ops, mpOp{kind: "initiate", k: s.u.keys[0], emptyMeta: true})
		}
	}
	for i, u := range s.m.Uploads {
		for _, n := range s.u.partNums {
			if u.Parts[n] == nil && len(u.Parts) >= s.u.maxParts {
				continue
			}
			for _, b := range s.u.bodies {
				ops = append(ops, mpOp{kind: "part", u: i, n: n, body: b})
			}
		}
	}
	for i, u := range s.m.Uploads {
		for _, c := range s.completeLists(u) {
			c.u = i
			ops = append(ops, c)
		}
	}
	if s.w.Cfg.PutFault {
		for _, k := range s.u.keys {
			if s.m.Objects[k] != nil {
				ops = append(ops, mpOp{kind: "delete-object", k: k})
			}
		}
		// the environment refuses the store of an otherwise valid complete
		for i, u := range s.m.Uploads {
			if ns := u.PartNumbers(); len(ns) > 0 {
				var l []model.CPart
				for _, n := range ns {
					l = append(l, model.CPart{N: n, ETag: model.PartETag(u.Parts[n].Body)})
				}
				ops = append(ops, mpOp{kind: "complete-storefault", u: i, list: l, desc: descList(l, " store-fault")})
			}
		}
	}
	for i := range s.m.Uploads {
		ops = append(ops, mpOp{kind: "abort", u: i})
	}
	if len(s.m.Uploads) > 0 && len(s.u.keys) > 1 {
		u := s.m.Uploads[0]
		other := s.u.keys[0]
		if other == u.Key {
			other = s.u.keys[1]
		}
		ops = append(ops, mpOp{kind: "abort-wrongkey", u: 0, k: other})
	}
	for _, k := range s.u.keys {
		ops = append(ops, mpOp{kind: "put", k: k, body: "P"})
	}
	// a part the server refuses (its Content-MD5 is another body's; its aws-chunked stream is
	// one byte longer than declared) is no part of the upload, new or in place of an older one
	if len(s.m.Uploads) > 0 {
		ops = append(ops, mpOp{kind: "part-refused", u: 0, desc: "wrong-md5"}, mpOp{kind: "part-refused", u: 0, desc: "chunked-longer-than-declared"})
	}
	// the bucket is deleted and created again: its pending uploads went with it
	if !s.w.Cfg.Kind.IsSingle() && len(s.m.Objects) == 0 && len(s.m.Uploads) > 0 && !s.recreated {
		ops = append(ops, mpOp{kind: "recreate-bucket"})
	}
	// ... and a delete of the bucket that is refused (it holds an object) changes nothing
	if !s.w.Cfg.Kind.IsSingle() && len(s.m.Objects) > 0 && len(s.m.Uploads) > 0 {
		ops = append(ops, mpOp{kind: "delete-bucket-refused"})
	}
	// ... and so does creating the bucket that exists already
	if !s.w.Cfg.Kind.IsSingle() && len(s.m.Uploads) > 0 {
		ops = append(ops, mpOp{kind: "create-bucket-refused"})
	}
	// multipart requests whose upload id names no upload: empty, or in a pair the
	// query parser cannot read (a bad escape, a raw ';'), or given twice
	if s.m.Objects[s.u.keys[0]] != nil {
		live := "1"
		if len(s.m.Uploads) > 0 {
			live = s.m.Uploads[0].ID
		}
		for _, q := range []string{"uploadId=", "uploadId=%zz", "uploadId=" + live + ";x=1", "uploadId=&uploadId=" + live} {
			ops = append(ops, mpOp{kind: "part-badid", k: s.u.keys[0], desc: q}, mpOp{kind: "abort-badid", k: s.u.keys[0], desc: q})
		}
	}
	return ops
}

func completeBody(l []model.CPart) []byte {
	var sb strings.Builder
	sb.WriteString("<CompleteMultipartUpload>")
	for _, c := range l {
		fmt.Fprintf(&sb, "<Part><PartNumber>%d</PartNumber><ETag>%s</ETag></Part>", c.N, xmlEsc(c.ETag))
	}
	sb.WriteString("</CompleteMultipartUpload>")
	return []byte(sb.String())
}

func (s *mpSys) Apply(op engine.Op) (string, *engine.Violation) {
	obs, v := s.apply(op)
	if v != nil && s.prop != "C06" {
		v.Sig = "FOREIGN"
	}
	return obs, v
}

func (s *mpSys) apply(op engine.Op) (string, *engine.Violation) {
	o := op.(mpOp)
	s.last = o.kind
	bad := func(field, cond string, r drv.Resp, exp string, extra string) (string, *engine.Violation) {
		return respSig(r), viol(sig("C06", "any", o.kind, field, cond, "exp="+exp, "got="+respSig(r)), "%s: expected %s, got %s %s", o.String(), exp, r.Short(), extra)
	}
	switch o.kind {
	case "initiate":
		var hdr [][2]string
		var meta map[string]string
		if o.meta {
			hdr = drv.H(mpMetaKey, "mv")
			meta = map[string]string{mpMetaKey: "mv"}
		}
		if o.emptyMeta {
			hdr = drv.H(mpMetaKey, "")
			meta = map[string]string{mpMetaKey: ""}
		}
		r := s.w.Do(drv.Req{Method: "POST", Path: "/" + s.bucket + "/" + o.k, Query: "uploads", Header: hdr})
		if r.Status != 200 || r.Panic != "" {
			return bad("status", "-", r, "200", "")
		}
		n := r.XML()
		id := ""
		if n != nil {
			id = n.T("UploadId")
		}
		if id == "" || s.allIDs[id] {
			return bad("upload-id", "not-fresh", r, "200", "UploadId "+id)
		}
		s.allIDs[id] = true
		s.inits++
		s.searchInits++
		s.m.Initiate(id, o.k, meta)
		return "200", nil
	case "delete-bucket-refused":
		r := s.w.Do(drv.Req{Method: "DELETE", Path: "/" + s.bucket})
		if r.Status != 409 || r.Panic != "" {
			return respSig(r), &engine.Violation{Sig: "FOREIGN", Msg: "delete of a bucket that holds an object: " + r.Short()}
		}
		return respSig(r), nil // Check: objects, pending uploads and their parts are as they were
	case "create-bucket-refused":
		r := s.w.Do(drv.Req{Method: "PUT", Path: "/" + s.bucket})
		if r.Status != 409 || r.Panic != "" {
			return respSig(r), &engine.Violation{Sig: "FOREIGN", Msg: "create of a bucket that exists: " + r.Short()}
		}
		return respSig(r), nil // Check: objects, pending uploads and their parts are as they were
	case "recreate-bucket":
		r := s.w.Do(drv.Req{Method: "DELETE", Path: "/" + s.bucket})
		if r.Status != 204 || r.Panic != "" {
			return respSig(r), &engine.Violation{Sig: "FOREIGN", Msg: "delete of a bucket without objects: " + r.Short()}
		}
		if r = s.w.Do(drv.Req{Method: "PUT", Path: "/" + s.bucket}); r.Status != 200 {
			return respSig(r), &engine.Violation{Sig: "FOREIGN", Msg: "create bucket: " + r.Short()}
		}
		for _, u := range s.m.Uploads {
			s.m.Closed = append(s.m.Closed, u.ID)
		}
		s.m.Uploads = nil
		s.inits = 0 // the new bucket has not had an upload initiated
		s.recreated = true
		return "recreated", nil
	case "initiate-nokey":
		// POST /bucket?uploads: an upload needs the key of the object it will become
		r := s.w.Do(drv.Req{Method: "POST", Path: "/" + s.bucket, Query: "uploads"})
		if r.Panic == "" && r.Status >= 400 && r.Status < 500 {
			return respSig(r), nil
		}
		id := ""
		if n := r.XML(); n != nil {
			id = n.T("UploadId")
		}
		if s.prop == "C06" || r.Status != 200 || id == "" {
			return bad("status", "-", r, "a client error", "(an upload without a key was accepted: it can only become an object that no request can name)")
		}
		// C14: the listing has to cope with what the server accepted
		s.allIDs[id] = true
		s.inits++
		s.searchInits++
		s.m.Initiate(id, "", nil)
		return "200", nil
	case "part":
		u := s.m.Uploads[o.u]
		cond := "new"
		if u.Parts[o.n] != nil {
			cond = "overwrite"
		}
		r := s.w.Do(drv.Req{Method: "PUT", Path: "/" + s.bucket + "/" + u.Key, Query: drv.Q("uploadId", u.ID, "partNumber", strconv.Itoa(o.n)), Body: []byte(o.body)})
		e := s.m.UploadPart(u.ID, u.Key, o.n, []byte(o.body))
		if !matchExp(r, e) {
			return bad("status", cond, r, expSig(e), "")
		}
		if e.Status == 200 && r.Header.Get("ETag") != model.PartETag([]byte(o.body)) {
			return bad("etag", cond, r, "200", "ETag "+r.Header.Get("ETag"))
		}
		return respSig(r), nil
	case "delete-object":
		r := s.w.Do(drv.Req{Method: "DELETE", Path: "/" + s.bucket + "/" + o.k})
		if r.Status != 204 || r.Panic != "" {
			return respSig(r), &engine.Violation{Sig: "FOREIGN", Msg: "delete object: " + r.Short()}
		}
		delete(s.m.Objects, o.k)
		delete(s.fresh, o.k)
		return respSig(r), nil
	case "complete":
		u := s.m.Uploads[o.u]
		if s.fresh == nil {
			s.fresh = map[string]bool{}
		}
		wasAbsent := s.m.Objects[u.Key] == nil
		defer func(k string) {
			if s.m.Objects[k] != nil && s.last == "complete" {
				s.fresh[k] = wasAbsent // (completed over an existing object: its metadata may be carried over)
			}
		}(u.Key)
		cond := strings.TrimSpace(strings.SplitN(o.desc, "]", 2)[1])
		if i := strings.Index(cond, "#"); i >= 0 {
			cond = cond[:i]
		}
		if cond == "" {
			cond = "valid"
		}
		r := s.w.Do(drv.Req{Method: "POST", Path: "/" + s.bucket + "/" + u.Key, Query: drv.Q("uploadId", u.ID), Body: completeBody(o.list)})
		exps, _, etag := s.m.Complete(u.ID, u.Key, o.list)
		ok := false
		var es []string
		for _, e := range exps {
			es = append(es, expSig(e))
			if matchExp(r, e) {
				ok = true
			}
		}
		if !ok && exps[0].Status >= 400 && r.Panic == "" && r.Status >= 400 && r.Status < 500 {
			// the statement says "rejected", it does not fix the code: any client-error answer is a rejection
			ok = true
		}
		if !ok {
			return bad("status", cond, r, strings.Join(es, "|"), "")
		}
		if exps[0].Status == 200 {
			n := r.XML()
			if n == nil || n.Name != "CompleteMultipartUploadResult" {
				return bad("document", cond, r, "200", "not a CompleteMultipartUploadResult")
			}
			if got := n.T("ETag"); got != etag {
				return bad("etag", cond, r, "200", fmt.Sprintf("result ETag %s want %s", got, etag))
			}
			if got := n.Child("Key").TextRaw(); got != u.Key {
				return bad("key", cond, r, "200", "result Key "+got)
			}
		}
		return respSig(r), nil
	case "complete-storefault":
		u := s.m.Uploads[o.u]
		s.w.FailPuts = 1
		r := s.w.Do(drv.Req{Method: "POST", Path: "/" + s.bucket + "/" + u.Key, Query: drv.Q("uploadId", u.ID), Body: completeBody(o.list)})
		used := s.w.FailPuts == 0
		s.w.FailPuts = 0
		s.faulted = true
		if ob := s.m.Objects[u.Key]; ob != nil {
			s.faultedOver += "|" + drv.MetaString(ob.Meta)
		} else {
			s.faultedOver += "|-"
		}
		if !used {
			return respSig(r), &engine.Violation{Sig: "FOREIGN", Msg: "valid complete did not reach the backend: " + r.Short()}
		}
		if r.Panic != "" || r.Status < 400 {
			return bad("status", "store-fault", r, "an error status", "(the backend refused to store the object)")
		}
		// nothing was stored: object and pending upload stay as they are (model unchanged)
		return respSig(r), nil
	case "abort", "abort-wrongkey":
		u := s.m.Uploads[o.u]
		key := u.Key
		if o.kind == "abort-wrongkey" {
			key = o.k
		}
		r := s.w.Do(drv.Req{Method: "DELETE", Path: "/" + s.bucket + "/" + key, Query: drv.Q("uploadId", u.ID)})
		e := s.m.Abort(u.ID, key)
		if !matchExp(r, e) {
			return bad("status", "-", r, expSig(e), "")
		}
		return respSig(r), nil
	case "part-refused":
		u := s.m.Uploads[o.u]
		rq := drv.Req{Method: "PUT", Path: "/" + s.bucket + "/" + u.Key, Query: drv.Q("uploadId", u.ID, "partNumber", "1")}
		if o.desc == "wrong-md5" {
			rq.Body = []byte("refused-part")
			rq.Header = drv.H("Content-MD5", "XrY7u+Ae7tCTyyK7j1rNww==") // (MD5 of "hello world")
		} else {
			rq.Body = drv.EncodeChunked([]byte("refused-part"), []int{12})
			rq.Header = drv.H("X-Amz-Content-Sha256", "STREAMING-AWS4-HMAC-SHA256-PAYLOAD", "X-Amz-Decoded-Content-Length", "11")
		}
		r := s.w.Do(rq)
		if r.Panic != "" || r.Status < 400 {
			return bad("status", "part-refused:"+o.desc, r, "an error status", "(the part's body is not what its headers say)")
		}
		return respSig(r), nil // the upload's parts must be as they were: Check compares them with the unchanged model
	case "part-badid", "abort-badid":
		var r drv.Resp
		if o.kind == "part-badid" {
			r = s.w.Do(drv.Req{Method: "PUT", Path: "/" + s.bucket + "/" + o.k, Query: "partNumber=1&" + o.desc, Body: []byte("stray part")})
		} else {
			r = s.w.Do(drv.Req{Method: "DELETE", Path: "/" + s.bucket + "/" + o.k, Query: o.desc})
		}
		cond := "empty-id"
		switch {
		case strings.Contains(o.desc, "%zz"):
			cond = "bad-escape"
		case strings.Contains(o.desc, ";"):
			cond = "raw-semicolon"
		case strings.Contains(o.desc, "&"):
			cond = "id-given-twice"
		}
		if r.Panic != "" || r.Status < 400 {
			return bad("status", cond, r, "an error status", "(the request names an upload that does not exist; it is not a request on the object)")
		}
		return respSig(r), nil // object and uploads must be as they were: Check compares them with the unchanged model
	case "put":
		r := s.w.Do(drv.Req{Method: "PUT", Path: "/" + s.bucket + "/" + o.k, Body: []byte(o.body), Header: drv.H(mpMetaKey, "plain")})
		if r.Status != 200 || r.Panic != "" {
			return respSig(r), &engine.Violation{Sig: "FOREIGN", Msg: "plain put failed: " + r.Short()}
		}
		s.m.Objects[o.k] = &model.Obj{Body: []byte(o.body), Meta: map[string]string{mpMetaKey: "plain"}}
		delete(s.fresh, o.k)
		return respSig(r), nil
	}
	panic("c06: unknown op")
}

func (s *mpSys) Check() ([]*engine.Violation, int64) {
	if s.prop == "C14" {
		return s.checkMPListing()
	}
	var vs []*engine.Violation
	var evals int64
	kind := string(s.w.Cfg.Kind)
	add := func(op, field, cond, format string, a ...interface{}) {
		vs = append(vs, viol(sig("C06", kind, "after:"+s.last, op, field, cond), format, a...))
	}
	for _, k := range s.u.keys {
		v := s.w.Get(s.bucket, k)
		evals++
		if f, msg := checkObjView(v, s.m.Objects[k], false); f != "" {
			add("get", f, existsStr(s.m.Objects[k] != nil), "GET /%s/%s: %s", s.bucket, k, msg)
		} else if o := s.m.Objects[k]; o != nil && s.fresh[k] {
			// completed where no object was: it carries the metadata given at initiation and
			// nothing else (whatever an earlier, failed complete may have looked at)
			if got, has := v.Meta[mpMetaKey]; has && o.Meta[mpMetaKey] != got {
				add("get", "foreign-metadata", "completed-into-an-empty-key", "GET /%s/%s: %s=%q, which was not given at initiation (the key held no object when the upload was completed)", s.bucket, k, mpMetaKey, got)
			}
		}
	}
	for i, u := range s.m.Uploads {
		pp := s.w.ListParts(s.bucket, u.Key, u.ID, "")
		evals++
		want := ""
		for _, n := range u.PartNumbers() {
			want += fmt.Sprintf(" %d/%d/%s", n, len(u.Parts[n].Body), model.PartETag(u.Parts[n].Body))
		}
		got := ""
		for _, p := range pp.Parts {
			got += fmt.Sprintf(" %d/%d/%s", p.N, p.Size, p.ETag)
		}
		if pp.Status != 200 || pp.Panic != "" || got != want {
			add("list-parts", "parts", "open-upload", "ListParts u%d: %d %s %s parts%s, want%s", i, pp.Status, pp.Code, panicOf(pp.Panic), got, want)
		}
	}
	for _, id := range s.m.Closed {
		for _, k := range s.u.keys {
			pp := s.w.ListParts(s.bucket, k, id, "")
			evals++
			if pp.Status != 404 || pp.Code != "NoSuchUpload" {
				add("list-parts", "status", "closed-upload", "ListParts of a completed/aborted upload via key %s: %d %s %s, want 404 NoSuchUpload", k, pp.Status, pp.Code, panicOf(pp.Panic))
			}
		}
	}
	if s.inits > 0 {
		up := s.w.ListUploads(s.bucket, "")
		evals++
		var got, want []string
		for _, u := range up.Uploads {
			got = append(got, u.Key+"|"+u.ID)
		}
		for _, u := range s.m.Uploads {
			want = append(want, u.Key+"|"+u.ID)
		}
		if up.Status != 200 || up.Panic != "" || !sameSet(got, want) {
			add("list-uploads", "uploads", "-", "ListMultipartUploads: %d %s %s %v, want %v", up.Status, up.Code, panicOf(up.Panic), got, want)
		}
	}
	return vs, evals
}

func mpPlans(c *engine.Ctx) ([]drv.Config, *mpUniverse, int) {
	u := &mpUniverse{keys: []string{"a", "b/c"}, partNums: []int{1, 2, 5}, bodies: []string{"a", "bb"}, maxOpen: 2, maxInit: 3, maxParts: 3}
	depth := 5
	kinds := []drv.Kind{drv.Mem, drv.Bolt, drv.MultiMem, drv.SingleMem}
	if !quick(c) {
		u = &mpUniverse{keys: []string{"a", "b/c", "b/d"}, partNums: []int{1, 2, 5, 10000}, bodies: []string{"a", "bb", "ccc"}, maxOpen: 3, maxInit: 4, maxParts: 3}
		depth = 6
		kinds = append(kinds, drv.MultiDir, drv.SingleDir)
	}
	var cfgs []drv.Config
	for _, k := range kinds {
		cfgs = append(cfgs, drv.Config{Kind: k})
	}
	return cfgs, u, depth
}

func runMP(c *engine.Ctx, prop string) {
	cfgs, u, depth := mpPlans(c)
	c.SpecBudget = c.Budget() / time.Duration(len(cfgs)+1)
	// same-key uploads whose ids cross the 9 -> 10 boundary (start from a non-initial uploader)
	{
		cfg := drv.Config{Kind: drv.Mem}
		bu := &mpUniverse{keys: []string{"a", "b/c"}, partNums: []int{1}, bodies: []string{"a"}, maxOpen: 4, maxInit: 5, maxParts: 1}
		name := prop + "/mem/ids-from-9"
		engine.RunSeq(c, engine.SeqSpec{Name: name, World: "mem", MaxDepth: 4,
			New: func() (engine.Sys, error) { return newMPSysBurn(cfg, bu, prop, 8) }})
		c.Bounds[name] = map[string]interface{}{"keys": bu.keys, "pre_burned_upload_ids": 8, "max_open_uploads": bu.maxOpen, "history_depth": 4}
	}
	if prop == "C14" {
		// a key next to the keys below it ("b" and "b/c"): the common prefix "b/" sorts between them
		cfg := drv.Config{Kind: drv.Mem}
		fu := &mpUniverse{keys: []string{"a", "b", "b/c", "c"}, partNums: []int{1}, bodies: []string{"a"}, maxOpen: 4, maxInit: 4, maxParts: 1}
		name := prop + "/mem/key-and-its-folder"
		engine.RunSeq(c, engine.SeqSpec{Name: name, World: "mem", MaxDepth: 4,
			New: func() (engine.Sys, error) { return newMPSys(cfg, fu, prop) }})
		c.Bounds[name] = map[string]interface{}{"keys": fu.keys, "max_open_uploads": fu.maxOpen, "history_depth": 4}
	}
	for i, cfg := range cfgs {
		cfg := cfg
		d := depth
		if i > 0 {
			d = depth - 1 // the uploader is backend independent; the first world goes deepest
		}
		name := prop + "/" + worldName(cfg)
		engine.RunSeq(c, engine.SeqSpec{Name: name, World: worldName(cfg), MaxDepth: d,
			New: func() (engine.Sys, error) { return newMPSys(cfg, u, prop) }})
		c.Bounds[name] = map[string]interface{}{"keys": u.keys, "part_numbers": u.partNums, "part_bodies": u.bodies, "max_open_uploads": u.maxOpen, "max_initiated": u.maxInit, "history_depth": d}
	}
	{
		// environment answer "the backend cannot store the assembled object": the
		// complete fails and must leave the pending upload (every part) as it was,
		// so that a retry stores the full object
		cfg := drv.Config{Kind: drv.Mem, PutFault: true}
		fu := &mpUniverse{keys: []string{"a"}, partNums: []int{1, 2}, bodies: []string{"a"}, maxOpen: 1, maxInit: 2, maxParts: 2}
		name := prop + "/mem/store-fault"
		d := depth + 2 // put, initiate, part, failed complete, delete, complete (+1: the state after it is checked)
		engine.RunSeq(c, engine.SeqSpec{Name: name, World: "mem", MaxDepth: d,
			New: func() (engine.Sys, error) { return newMPSys(cfg, fu, prop) }})
		c.Bounds[name] = map[string]interface{}{"keys": fu.keys, "part_numbers": fu.partNums, "part_bodies": fu.bodies, "injected": "PutObject error during complete", "history_depth": d}
	}
	if prop == "C14" {
		// the same environment answer with several uploads of one key pending: the
		// upload whose complete failed keeps its place among them
		cfg := drv.Config{Kind: drv.Mem, PutFault: true}
		fu := &mpUniverse{keys: []string{"a"}, partNums: []int{1}, bodies: []string{"a"}, maxOpen: 3, maxInit: 3, maxParts: 1}
		name := prop + "/mem/store-fault-among-siblings"
		d := 6 // initiate x3, part, failed complete (+1: the state after it is checked)
		engine.RunSeq(c, engine.SeqSpec{Name: name, World: "mem", MaxDepth: d,
			New: func() (engine.Sys, error) { return newMPSys(cfg, fu, prop) }})
		c.Bounds[name] = map[string]interface{}{"keys": fu.keys, "part_numbers": fu.partNums, "max_open_uploads": fu.maxOpen, "injected": "PutObject error during complete", "history_depth": d}
	}
}

func init() {
	Registry["C06"] = func(c *engine.Ctx) {
		c.Rule = "state = canonical snapshot (objects + pending uploads with their parts; upload ids replaced by rank); transition = initiate / upload-part / complete(part list: all, subsets, out-of-order, never-uploaded numbers 0/-1/3/10001, stale ETag, foreign ETag) / abort / plain put, checked against the A.4 model; in every new state GET per key, ListParts per open and closed upload, ListMultipartUploads; distinct_nontrivial = distinct canonical states"
		c.Assumptions = append(c.Assumptions, "multipart ETag is required on the Complete result only", "empty part lists are outside the statement and not generated; a list naming a part number twice is not ascending and must be rejected")
		runMP(c, "C06")
		if c.Replay == nil {
			bigComplete(c)
		}
	}
}

func (s *mpSys) renderModel() string {
	out := ""
	for i, u := range s.m.Uploads {
		out += fmt.Sprintf("U%d %s %q:", i, u.Key, drv.MetaString(u.Meta))
		for _, n := range u.PartNumbers() {
			out += fmt.Sprintf(" %d=%s", n, u.Parts[n].Body)
		}
		out += "\n"
	}
	var ks []string
	for k := range s.m.Objects {
		ks = append(ks, k)
	}
	sort.Strings(ks)
	for _, k := range ks {
		out += "O " + k + " " + string(s.m.Objects[k].Body) + " " + drv.MetaString(s.m.Objects[k].Meta) + "\n"
	}
	return out + fmt.Sprintf("closed=%d", len(s.m.Closed))
}
