package props

import (
	"encoding/json"
	"fmt"
	"os"
	"os/exec"
	"path/filepath"
	"strconv"
	"strings"
	"time"

	bbolt "go.etcd.io/bbolt"

	"verifmc/drv"
	"verifmc/engine"
	"verifmc/model"
)

// C15 — persistence across restart (seqmc reopen predicate on the C02
// universe) and across kill -9 (crashmc: every crash image of a short write
// history, reopened with the real backend).

// ---- clean reopen --------------------------------------------------------

type c15ReopenSys struct{ *c02Sys }

func (s *c15ReopenSys) Check() ([]*engine.Violation, int64) {
	kind := string(s.w.Cfg.Kind)
	before := s.w.Snapshot(drv.SnapOpts{NoRaw: true})
	if err := s.w.Reopen(); err != nil {
		return []*engine.Violation{viol(sig("C15", kind, "reopen", "open-failed"), "reopening the storage failed: %v", err)}, 1
	}
	after := s.w.Snapshot(drv.SnapOpts{NoRaw: true})
	if before != after {
		return []*engine.Violation{viol(sig("C15", kind, "reopen", "after:"+s.last, "state-differs"), "state after close + reopen differs.\nbefore:\n%s\nafter:\n%s", before, after)}, 2
	}
	// and it must still be the state the model describes (reads against the model)
	vs, n := s.c02Sys.Check()
	for _, v := range vs {
		v.Sig = strings.Replace(v.Sig, "C02/", "C15/reopen/", 1)
	}
	return vs, n + 2
}

func (s *c15ReopenSys) Apply(op engine.Op) (string, *engine.Violation) {
	obs, v := s.c02Sys.Apply(op)
	if v != nil {
		v.Sig = "FOREIGN" // step divergences are C02's business
	}
	return obs, v
}

func runC15Reopen(c *engine.Ctx) {
	kinds := []drv.Kind{drv.Bolt, drv.MultiDir, drv.SingleDir, drv.MultiMem, drv.SingleMem}
	c.SpecBudget = c.Budget() / time.Duration(3*len(kinds))
	for _, k := range kinds {
		cfg := drv.Config{Kind: k}
		u := &c02Universe{buckets: []string{"aaa", "bbb"}, keys: []string{"k", "d/x"}, bodies: []string{"A", "BB"}}
		depth := 4
		if !quick(c) {
			depth = 5
		}
		if k.IsSingle() {
			u.buckets = []string{"aaa"}
			u.keys = []string{"k", "d/x", ".modtime-resolution", ".modtime-resolution-7/y"} // names like the backend's own probe (a fixed name once, a temporary directory now)
		}
		ops := c02BuildOps(u)
		name := "C15/reopen/" + string(k)
		engine.RunSeq(c, engine.SeqSpec{Name: name, World: string(k), MaxDepth: depth,
			New: func() (engine.Sys, error) {
				s, err := newC02Sys(cfg, u, ops)
				if err != nil {
					return nil, err
				}
				s.propID = "C15"
				return &c15ReopenSys{s}, nil
			}})
		c.Bounds[name] = map[string]interface{}{"buckets": u.buckets, "keys": u.keys, "depth": depth}
		if !quick(c) {
			// closure of the one-bucket universe
			u1 := &c02Universe{buckets: []string{"aaa"}, keys: []string{"k", "d/x"}, bodies: []string{"A", "BB"}}
			ops1 := c02BuildOps(u1)
			name1 := "C15/reopen-closure/" + string(k)
			engine.RunSeq(c, engine.SeqSpec{Name: name1, World: string(k), MaxDepth: 0,
				New: func() (engine.Sys, error) {
					s, err := newC02Sys(cfg, u1, ops1)
					if err != nil {
						return nil, err
					}
					s.propID = "C15"
					return &c15ReopenSys{s}, nil
				}})
		}
	}
}

// ---- kill: crash images ---------------------------------------------------

type crashOp struct {
	kind   string // create | put | putbig | copy | delete | multi | delbucket
	b, k   string
	b2, k2 string
	body   string
}

func (o crashOp) String() string {
	switch o.kind {
	case "copy":
		return fmt.Sprintf("copy %s/%s->%s/%s", o.b, o.k, o.b2, o.k2)
	case "create", "delbucket":
		return o.kind + " " + o.b
	case "multi":
		return "multi-delete " + o.b + " [k d/x]"
	}
	return fmt.Sprintf("%s %s/%s", o.kind, o.b, o.k)
}

func crashAlphabet(single bool) []crashOp {
	big1 := strings.Repeat("0123456789abcdef", 2560)         // 40 KiB
	big2 := strings.Repeat("fedcba9876543210", 2560)[:40000] // different content and size
	big3 := strings.Repeat("0123456789ABCDEF", 2560)         // same size as big1, other content
	ops := []crashOp{
		{kind: "put", b: "aaa", k: "k", body: "A"},
		{kind: "put", b: "aaa", k: "k", body: "BBB"},
		{kind: "put", b: "aaa", k: "k", body: "Z"}, // same size as "A"
		{kind: "putbig", b: "aaa", k: "k", body: big3},
		{kind: "putmeta", b: "aaa", k: "k", body: "M"}, // 9 KiB of user metadata: the record spans three storage blocks
		{kind: "put", b: "aaa", k: "d/x", body: "C"},
		{kind: "putbig", b: "aaa", k: "k", body: big1},
		{kind: "putbig", b: "aaa", k: "k", body: big2},
		{kind: "copy", b: "aaa", k: "k", b2: "aaa", k2: "d/x"},
		{kind: "delete", b: "aaa", k: "k"},
		{kind: "multi", b: "aaa"},
		// a key two directories deep: a kill may leave nested empty directories behind
		{kind: "put", b: "aaa", k: "n/m/x", body: "N"},
		{kind: "delete", b: "aaa", k: "n/m/x"},
	}
	if !single {
		ops = append(ops, crashOp{kind: "create", b: "bbb"}, crashOp{kind: "delbucket", b: "aaa"}, crashOp{kind: "copy", b: "aaa", k: "k", b2: "bbb", k2: "k"})
	}
	return ops
}

func crashApply(w *drv.World, m *model.Store, o crashOp) (drv.Resp, model.Exp) {
	switch o.kind {
	case "create":
		return w.Do(drv.Req{Method: "PUT", Path: "/" + o.b}), m.CreateBucket(o.b)
	case "delbucket":
		return w.Do(drv.Req{Method: "DELETE", Path: "/" + o.b}), m.DeleteBucket(o.b)
	case "put", "putbig", "putmeta":
		meta := map[string]string{"x-amz-meta-a": "m" + strconv.Itoa(len(o.body)) + o.body[:1]}
		if o.kind == "putmeta" {
			meta["x-amz-meta-a"] = strings.Repeat("v", 9000)
		}
		return w.Do(drv.Req{Method: "PUT", Path: "/" + o.b + "/" + o.k, Body: []byte(o.body), Header: drv.H("x-amz-meta-a", meta["x-amz-meta-a"])}), m.Put(o.b, o.k, []byte(o.body), meta)
	case "delete":
		return w.Do(drv.Req{Method: "DELETE", Path: "/" + o.b + "/" + o.k}), m.Delete(o.b, o.k)
	case "multi":
		return w.Do(drv.Req{Method: "POST", Path: "/" + o.b, Query: "delete", Body: multiDeleteBody([]string{"k", "d/x"}, false)}), m.MultiDelete(o.b, []string{"k", "d/x"})
	case "copy":
		e, _ := m.Copy(o.b, o.k, o.b2, o.k2)
		return w.Do(drv.Req{Method: "PUT", Path: "/" + o.b2 + "/" + o.k2, Header: drv.H("X-Amz-Copy-Source", "/"+o.b+"/"+o.k)}), e
	}
	panic("crash op")
}

func cloneStore(s *model.Store) *model.Store {
	n := model.NewStore(s.Auto, s.Single)
	n.Buckets = map[string]map[string]*model.Obj{}
	for b, objs := range s.Buckets {
		n.Buckets[b] = map[string]*model.Obj{}
		for k, o := range objs {
			n.Buckets[b][k] = o.Clone()
		}
	}
	return n
}

// matchStore compares the reopened world with a model state. It returns ""
// when they agree, else a description; scope tells where the first difference is.
func matchStore(w *drv.World, m *model.Store, universeBuckets []string) (diff string, where string) {
	names, lr := w.ListBuckets()
	if lr.Status != 200 || lr.Panic != "" {
		return "ListBuckets answered " + lr.Short(), "list-buckets-error"
	}
	if strings.Join(names, ",") != strings.Join(m.BucketNames(), ",") {
		return fmt.Sprintf("buckets %v, model %v", names, m.BucketNames()), "bucket-set"
	}
	for _, b := range names {
		lp := w.List(b, "")
		if lp.Status != 200 || lp.Panic != "" {
			return fmt.Sprintf("listing %s answered %d %s %s", b, lp.Status, lp.Code, panicOf(lp.Panic)), "list-error"
		}
		var got []string
		for _, e := range lp.Entries {
			got = append(got, e.Key)
		}
		if strings.Join(got, "\x00") != strings.Join(m.Keys(b), "\x00") {
			return fmt.Sprintf("bucket %s lists %q, model %q", b, got, m.Keys(b)), "key-set:" + b
		}
		// the grouped view: no common prefix without a key below it (left-over directories)
		ld := w.List(b, "delimiter=%2F")
		_, wantCP := model.Split(model.Group(m.Keys(b), "", "/"))
		if ld.Status != 200 || strings.Join(ld.Prefixes, "\x00") != strings.Join(wantCP, "\x00") {
			return fmt.Sprintf("bucket %s with delimiter '/' answers %d with common prefixes %q, the keys %q give %q", b, ld.Status, ld.Prefixes, m.Keys(b), wantCP), "common-prefixes:" + b
		}
		for _, e := range lp.Entries {
			o := m.Get(b, e.Key)
			if e.ETag != drv.ETagOf(o.Body) || e.Size != int64(len(o.Body)) {
				return fmt.Sprintf("listing entry %s/%s etag=%s size=%d, model %s/%d", b, e.Key, e.ETag, e.Size, drv.ETagOf(o.Body), len(o.Body)), "object:" + b + "/" + e.Key
			}
			v := w.Get(b, e.Key)
			if f, msg := checkObjView(v, o, false); f != "" {
				return fmt.Sprintf("GET %s/%s: %s", b, e.Key, msg), "object:" + b + "/" + e.Key
			}
		}
	}
	return "", ""
}

// storeIntegrity: whatever a crash left behind, an object the store serves must be
// consistent in itself - the ETag is the MD5 of the bytes served and the listing
// entry describes the same object.
func storeIntegrity(w *drv.World) string {
	names, lr := w.ListBuckets()
	if lr.Status != 200 {
		return ""
	}
	for _, b := range names {
		lp := w.List(b, "")
		if lp.Status != 200 {
			continue
		}
		for _, e := range lp.Entries {
			v := w.Get(b, e.Key)
			if v.Status != 200 {
				continue
			}
			if v.ETag != drv.ETagOf(v.Body) {
				return fmt.Sprintf("GET %s/%s serves %d bytes with ETag %s, but their MD5 is %s", b, e.Key, len(v.Body), v.ETag, drv.ETagOf(v.Body))
			}
			if e.ETag != v.ETag || e.Size != int64(len(v.Body)) {
				return fmt.Sprintf("listing entry %s/%s (etag %s, size %d) does not describe the object served (etag %s, %d bytes)", b, e.Key, e.ETag, e.Size, v.ETag, len(v.Body))
			}
		}
	}
	return ""
}

// tornDetail describes the object an interrupted put/copy left behind, so that
// the recorded finding (in-place overwrite) is identified by what it produces
// and any other outcome has a signature of its own.
func tornDetail(w *drv.World, o crashOp, pre, post *model.Store) string {
	b, k := o.b, o.k
	if o.kind == "copy" {
		b, k = o.b2, o.k2
	}
	v := w.Get(b, k)
	oldO, newO := pre.Get(b, k), post.Get(b, k)
	got := string(v.Body)
	body := "other"
	switch {
	case v.Status == 404:
		body = "absent"
	case v.Status != 200:
		body = "status-" + strconv.Itoa(v.Status)
	case newO != nil && got == string(newO.Body):
		body = "new"
	case oldO != nil && got == string(oldO.Body):
		body = "old"
	case len(got) == 0:
		body = "empty"
	case newO != nil && strings.HasPrefix(string(newO.Body), got):
		body = "prefix-of-new"
	case newO != nil && oldO != nil && len(got) == len(oldO.Body):
		n := 0
		for n < len(got) && n < len(newO.Body) && got[n] == newO.Body[n] {
			n++
		}
		if got[n:] == string(oldO.Body[n:]) {
			body = "new-head+old-tail"
		}
	}
	meta := "other"
	mv, has := v.Meta["x-amz-meta-a"]
	switch {
	case v.Status != 200:
		meta = "-"
	case !has:
		meta = "none"
	case newO != nil && mv == newO.Meta["x-amz-meta-a"]:
		meta = "new"
	case oldO != nil && mv == oldO.Meta["x-amz-meta-a"]:
		meta = "old"
	}
	if (body == "empty" || body == "prefix-of-new" || body == "new") && (meta == "old" || meta == "none" || meta == "new") {
		// exactly what create/truncate, write, then save the record leaves at its cut points
		return "truncated-or-partly-written-file-or-record-not-yet-saved"
	}
	return "body=" + body + ",meta=" + meta
}

type crashJobResult struct {
	World      string              `json:"world"`
	Histories  int                 `json:"histories"`
	Images     int                 `json:"images"`
	InFlight   int                 `json:"images_inside_an_operation"`
	Violations []*engine.Violation `json:"violations,omitempty"`
	Sample     []string            `json:"sample,omitempty"`
}

func touched(o crashOp) []string {
	switch o.kind {
	case "put", "putbig", "putmeta", "delete":
		return []string{"object:" + o.b + "/" + o.k, "key-set:" + o.b, "common-prefixes:" + o.b}
	case "copy":
		return []string{"object:" + o.b2 + "/" + o.k2, "key-set:" + o.b2, "common-prefixes:" + o.b2}
	case "multi":
		return []string{"object:" + o.b + "/k", "object:" + o.b + "/d/x", "key-set:" + o.b}
	case "create", "delbucket":
		return []string{"bucket-set"}
	}
	return nil
}

// c15CrashSub: verifmc -sub c15crash -- <kind> <extraOps> <shard> <nshards>
func c15CrashSub(args []string) int {
	kind := drv.Kind(args[0])
	depth, _ := strconv.Atoi(args[1])
	shard, _ := strconv.Atoi(args[2])
	nshards, _ := strconv.Atoi(args[3])
	single := kind.IsSingle()
	alpha := crashAlphabet(single)
	res := &crashJobResult{World: string(kind)}
	seenSig := map[string]bool{}
	report := func(v *engine.Violation) {
		if !seenSig[v.Sig] {
			seenSig[v.Sig] = true
			res.Violations = append(res.Violations, v)
		}
	}
	// enumerate histories: (create aaa,) then `depth` ops of the alphabet
	var hist []int
	var rec func(d int)
	count := 0
	rec = func(d int) {
		if d == depth {
			if count%nshards == shard {
				c15RunHistory(kind, alpha, append([]int{}, hist...), res, report)
			}
			count++
			return
		}
		for i := range alpha {
			hist = append(hist, i)
			rec(d + 1)
			hist = hist[:len(hist)-1]
		}
	}
	for d := 1; d <= depth; d++ {
		depthSave := depth
		depth = d
		rec(0)
		depth = depthSave
	}
	b, _ := json.Marshal(res)
	fmt.Println("C15RESULT " + string(b))
	return 0
}

func c15RunHistory(kind drv.Kind, alpha []crashOp, hist []int, res *crashJobResult, report func(*engine.Violation)) {
	class := backendClass(kind)
	dir, err := os.MkdirTemp(drv.Scratch(), "crash")
	if err != nil {
		engine.HarnessError("C15: %v", err)
	}
	defer os.RemoveAll(dir)
	live := filepath.Join(dir, "live")
	os.MkdirAll(live, 0o755)
	rec := drv.NewCrashRecorder(live)
	rec.Off = true
	cfg := drv.Config{Kind: kind, ReuseDir: live, BoltSync: true}
	var boltImages []struct {
		label int
		data  []byte
	}
	label := 0
	if kind == drv.Bolt {
		seen := map[string]bool{}
		snap := func(f *os.File) {
			b, _ := os.ReadFile(f.Name())
			key := fmt.Sprintf("%d|%s", label, drv.KeyOf(string(b)))
			if !seen[key] {
				seen[key] = true
				boltImages = append(boltImages, struct {
					label int
					data  []byte
				}{label, b})
			}
		}
		bbolt.VerifWriteAtHook = func(f *os.File, b []byte, off int64) (int, error) {
			if rec.Off {
				return f.WriteAt(b, off)
			}
			total := 0
			for len(b) > 0 {
				n := len(b)
				if n > 4096 {
					n = 4096
				}
				snap(f)
				w, err := f.WriteAt(b[:n], off)
				total += w
				if err != nil {
					return total, err
				}
				b, off = b[n:], off+int64(n)
			}
			return total, nil
		}
		defer func() { bbolt.VerifWriteAtHook = nil }()
	} else {
		cfg.FsWrap = rec.Wrap
		cfg.MetaFsWrap = rec.Wrap
	}
	cfg.MetaLimit = 20000 // room for the large metadata record of "putmeta"
	w, err := drv.NewWorld(cfg)
	if err != nil {
		engine.HarnessError("C15 world: %v", err)
	}
	m := model.NewStore(false, singleOf(kind))
	if !kind.IsSingle() {
		if r := w.Do(drv.Req{Method: "PUT", Path: "/aaa"}); r.Status != 200 {
			engine.HarnessError("C15 setup: %s", r.Short())
		}
		m.CreateBucket("aaa")
	}
	// no warm-up: the first operation of a process is the one during which the backend
	// does its lazy start-up work (s3afero probes the mtime resolution with a scratch
	// file), and a kill can land there like anywhere else
	rec.Off = false
	models := []*model.Store{cloneStore(m)}
	var hs []string
	for i, oi := range hist {
		o := alpha[oi]
		hs = append(hs, o.String())
		rec.Label, label = i, i
		r, e := crashApply(w, m, o)
		if !matchExp(r, e) {
			// the step itself misbehaves: C02's business; stop this history here
			hist = hist[:i]
			break
		}
		models = append(models, cloneStore(m))
	}
	rec.Label, label = len(hist), len(hist)
	rec.Snap("final")
	if kind == drv.Bolt && w.BoltDB != nil {
		b, _ := os.ReadFile(filepath.Join(live, "db.bolt"))
		boltImages = append(boltImages, struct {
			label int
			data  []byte
		}{len(hist), b})
	}
	rec.Off = true
	w.Close()
	res.Histories++
	nImages := len(rec.Images)
	if kind == drv.Bolt {
		nImages = len(boltImages)
	}
	for ii := 0; ii < nImages; ii++ {
		imgDir := filepath.Join(dir, fmt.Sprintf("img%d", ii))
		lbl := 0
		reason := ""
		if kind == drv.Bolt {
			os.MkdirAll(imgDir, 0o755)
			os.WriteFile(filepath.Join(imgDir, "db.bolt"), boltImages[ii].data, 0o600)
			lbl = boltImages[ii].label
		} else {
			if err := rec.Images[ii].Restore(imgDir); err != nil {
				engine.HarnessError("C15 restore: %v", err)
			}
			lbl, reason = rec.Images[ii].Label, rec.Images[ii].Reason
		}
		res.Images++
		if lbl < len(hist) {
			res.InFlight++
		}
		inflight := "none"
		var op crashOp
		if lbl < len(hist) {
			op = alpha[hist[lbl]]
			inflight = op.kind
		}
		base := &engine.Violation{World: string(kind), History: append(append([]string{}, hs...), fmt.Sprintf("crash during op #%d (%s) before %q", lbl, inflight, reason))}
		rw, err := drv.NewWorld(drv.Config{Kind: kind, ReuseDir: imgDir, MetaLimit: 20000})
		if err != nil {
			v := *base
			v.Sig, v.Msg = sig("C15", class, "crash", "in-flight="+inflight, "open-failed"), fmt.Sprintf("the store does not open after the crash: %v", err)
			report(&v)
			os.RemoveAll(imgDir)
			continue
		}
		if msg := storeIntegrity(rw); msg != "" {
			v := *base
			v.Sig, v.Msg = sig("C15", class, "crash", "in-flight="+inflight, "etag-does-not-match-body"), "after the kill the reopened store serves an object that is inconsistent in itself: "+msg
			report(&v)
			rw.Close()
			os.RemoveAll(imgDir)
			continue
		}
		dPre, wPre := matchStore(rw, models[lbl], nil)
		ok := dPre == ""
		dPost, wPost := "", ""
		if !ok && lbl+1 < len(models) {
			dPost, wPost = matchStore(rw, models[lbl+1], nil)
			ok = dPost == ""
		}
		if !ok && lbl < len(hist) && op.kind == "multi" {
			// a multi-object delete is a batch of independent deletes (as in S3 itself):
			// any prefix of the batch may have been applied
			mid := cloneStore(models[lbl])
			for _, k := range []string{"k", "d/x"} {
				mid.Delete(op.b, k)
				if d, _ := matchStore(rw, mid, nil); d == "" {
					ok = true
				}
			}
		}
		if ok && lbl < len(hist) && strings.Contains(op.k, "/") && (op.kind == "put" || op.kind == "delete") {
			// whatever is left of the in-flight write must not stand in the way of other keys:
			// the names of its directories are as storable as they are in the state it matches
			mm := models[lbl]
			if dPre != "" {
				mm = models[lbl+1]
			}
			segs := strings.Split(op.k, "/")
			for i := 1; i < len(segs); i++ {
				dir := strings.Join(segs[:i], "/")
				below := false
				for _, k := range mm.Keys(op.b) {
					if k == dir || strings.HasPrefix(k, dir+"/") {
						below = true
					}
				}
				if below {
					continue
				}
				if r := rw.Do(drv.Req{Method: "PUT", Path: "/" + op.b + "/" + dir, Body: []byte("p")}); r.Status != 200 {
					v := *base
					v.Sig = sig("C15", class, "crash", "in-flight="+inflight, "left-over-blocks-another-key")
					v.Msg = fmt.Sprintf("after a kill during %s of %s/%s the store lists like the state %s the operation, but PUT %s/%s (no key lives at or below it) answers %s", inflight, op.b, op.k, map[bool]string{true: "before", false: "after"}[dPre == ""], op.b, dir, r.Short())
					report(&v)
					break
				}
				rw.Do(drv.Req{Method: "DELETE", Path: "/" + op.b + "/" + dir})
			}
		}
		if !ok {
			v := *base
			what := "acknowledged-state-damaged"
			if strings.HasSuffix(wPre, "-error") || strings.HasSuffix(wPost, "-error") {
				what = "does-not-list"
			} else if lbl < len(hist) {
				for _, t := range touched(op) {
					if t == wPre || (wPost != "" && t == wPost) {
						what = "in-flight-op-partially-applied"
					}
				}
			}
			if strings.HasPrefix(wPre, "common-prefixes:") && (wPost == "" || strings.HasPrefix(wPost, "common-prefixes:")) {
				what = "left-over-directory-listed-as-common-prefix"
			}
			v.Sig = sig("C15", class, "crash", "in-flight="+inflight, what)
			if what == "in-flight-op-partially-applied" && !strings.HasPrefix(wPre, "common-prefixes:") && (op.kind == "put" || op.kind == "putbig" || op.kind == "putmeta" || op.kind == "copy") && lbl+1 < len(models) {
				v.Sig = sig("C15", class, "crash", "in-flight="+inflight, what, tornDetail(rw, op, models[lbl], models[lbl+1]))
			}
			v.Msg = fmt.Sprintf("after a kill during %s the reopened store matches neither the state before the operation (%s) nor after it (%s)", inflight, dPre, dPost)
			report(&v)
		}
		rw.Close()
		os.RemoveAll(imgDir)
	}
	if len(res.Sample) == 0 && len(hist) > 0 {
		res.Sample = append(hs, fmt.Sprintf("%d crash images", nImages))
	}
}

func runC15Crash(c *engine.Ctx) {
	depth := 3
	if !quick(c) {
		depth = 4
	}
	exe, err := os.Executable()
	if err != nil {
		engine.HarnessError("C15: %v", err)
	}
	type job struct {
		kind  drv.Kind
		shard int
	}
	kinds := []drv.Kind{drv.Bolt, drv.MultiDir, drv.SingleDir}
	nsh := 5
	var jobs []job
	for _, k := range kinds {
		for s := 0; s < nsh; s++ {
			jobs = append(jobs, job{k, s})
		}
	}
	results := make([]*crashJobResult, len(jobs))
	engine.ParallelFor(len(jobs), func(_, i int) {
		jb := jobs[i]
		cmd := exec.Command(exe, "-scratch", drv.Scratch(), "-sub", "c15crash", "--", string(jb.kind), strconv.Itoa(depth), strconv.Itoa(jb.shard), strconv.Itoa(nsh))
		out, err := cmd.CombinedOutput()
		for _, line := range strings.Split(string(out), "\n") {
			if strings.HasPrefix(line, "C15RESULT ") {
				r := &crashJobResult{}
				if json.Unmarshal([]byte(line[len("C15RESULT "):]), r) == nil {
					results[i] = r
				}
			}
		}
		if results[i] == nil {
			fmt.Print(clip(string(out), 3000))
			engine.HarnessError("C15 crash worker %s/%d failed: %v", jb.kind, jb.shard, err)
		}
	})
	var hist, imgs, infl int64
	for _, r := range results {
		hist += int64(r.Histories)
		imgs += int64(r.Images)
		infl += int64(r.InFlight)
		c.Count(r.World, "histories", int64(r.Histories))
		c.Count(r.World, "crash_images", int64(r.Images))
		for _, v := range r.Violations {
			c.Report(v)
		}
		if len(r.Sample) > 0 {
			c.AddSample(map[string]interface{}{"world": r.World, "history": r.Sample})
		}
	}
	c.Bounds["crash_history_length"] = depth
	c.Extra["crash_histories"] = hist
	c.Extra["crash_images"] = imgs
	c.Extra["crash_images_inside_an_operation"] = infl
	c.Add(imgs, imgs, imgs, imgs)
	for i := int64(0); i < infl && i < 100000; i++ {
		c.Distinct(fmt.Sprintf("img%d", i))
	}
}

func init() {
	Registry["C15"] = func(c *engine.Ctx) {
		c.Level = "model_checking"
		c.Rule = "clean reopen: state = canonical snapshot reached by a C02 history on a persistent backend (bolt file, multi/single fs on a real directory with on-disk metadata; MemMapFs variants with a fresh backend object); in every state the backend is closed and reconstructed on the same storage and must show the same buckets, keys, bodies, sizes, ETags and metadata and agree with the model. kill: for every history of <= n operations (put small, put 40 KiB, overwrite, copy, delete, multi-delete, create/delete bucket) the storage image before every storage mutation (and between the 4 KiB pieces of larger writes; for bolt: before every page write) is reopened with the real backend and must equal the model state before or after the operation in flight; distinct_nontrivial counts distinct canonical states plus crash images taken inside an operation"
		c.Assumptions = append(c.Assumptions, "wiring conformance: the real cmd/gofakes3 binary (built from the working tree) is started on the loopback interface for bolt, fs, fs+meta, directfs+meta, killed with SIGKILL after every prefix of a fixed 5-operation history and restarted on the same storage; this binds the in-process worlds to the flag wiring, it is not a sampling of kill instants", "process-kill model: the OS survives, so the persistent state is exactly the storage mutations issued so far, torn at 4 KiB granularity; no dropped or reordered unsynced blocks", "the real cmd/gofakes3 binary is not killed at random instants (sampling); the enumerated images are what such kills can leave behind under this model")
		runC15Reopen(c)
		runC15Crash(c)
		runC15Binary(c)
	}
	SubCommands["c15crash"] = c15CrashSub
}
