package props

import (
	"bytes"
	"crypto/md5"
	"encoding/hex"
	"fmt"
	"sort"
	"strconv"
	"strings"

	"verifmc/drv"
	"verifmc/engine"
	"verifmc/model"
)

// Large-collection cases: the default and maximum page sizes (1000) only come
// into play with more than 1000 entries, which no small-universe search
// reaches. One world per kind of listing with 1003 entries, walked with the
// default page size and with sizes around the clamp.

const bigN = 1003

func bigKey(i int) string { return fmt.Sprintf("big/%04d", i) }

// bigObjects: C04 on the memory backend.
func bigObjects(c *engine.Ctx) {
	w, err := drv.NewWorld(drv.Config{Kind: drv.Mem})
	if err != nil {
		engine.HarnessError("big: %v", err)
	}
	defer w.Close()
	w.Do(drv.Req{Method: "PUT", Path: "/aaa"})
	var keys []string
	for i := 0; i < bigN; i++ {
		k := bigKey(i)
		keys = append(keys, k)
		if r := w.Do(drv.Req{Method: "PUT", Path: "/aaa/" + k, Body: []byte("x")}); r.Status != 200 {
			engine.HarnessError("big put: %s", r.Short())
		}
	}
	w.Do(drv.Req{Method: "PUT", Path: "/aaa/zlast", Body: []byte("x")})
	keys = append(keys, "zlast")
	sort.Strings(keys)
	for _, v2 := range []bool{false, true} {
		for _, mk := range []string{"", "1000", "1001", "999", "5000", "1"} {
			if mk == "1" && v2 {
				continue
			}
			var got []string
			cont := ""
			pages := 0
			api := "V1"
			if v2 {
				api = "V2"
			}
			bad := func(field, msg string) {
				c.Report(&engine.Violation{Sig: sig("C04", "mem", "big-bucket", field, api), World: "mem", History: []string{fmt.Sprintf("%d keys, max-keys=%q %s", len(keys), mk, api)},
					Msg: fmt.Sprintf("bucket with %d keys, max-keys=%q, %s: %s", len(keys), mk, api, msg)})
			}
			ok := true
			for {
				pages++
				if pages > len(keys)+3 {
					bad("no-termination", "still truncated")
					ok = false
					break
				}
				q := ""
				if mk != "" {
					q = "max-keys=" + mk
				}
				if v2 {
					q = joinQ(q, "list-type=2")
					if cont != "" {
						q = joinQ(q, drv.Q("continuation-token", cont))
					}
				} else if cont != "" {
					q = joinQ(q, drv.Q("marker", cont))
				}
				lp := w.List("aaa", q)
				c.Add(0, 1, 1, 1)
				if lp.Status != 200 || lp.Panic != "" {
					bad("status", fmt.Sprintf("page answered %d %s %s", lp.Status, lp.Code, panicOf(lp.Panic)))
					ok = false
					break
				}
				limit := 1000
				if n, err := strconv.Atoi(mk); err == nil && n > 0 && n < 1000 {
					limit = n
				}
				if len(lp.Entries) > limit {
					bad("over-page-size", fmt.Sprintf("page with %d entries (limit %d)", len(lp.Entries), limit))
					ok = false
					break
				}
				for _, e := range lp.Entries {
					got = append(got, e.Key)
				}
				if !lp.IsTruncated {
					break
				}
				if v2 {
					cont = lp.NextToken
				} else if len(lp.Entries) > 0 {
					cont = lp.Entries[len(lp.Entries)-1].Key
				}
				if cont == "" {
					bad("no-continuation", "truncated page without continuation")
					ok = false
					break
				}
				if mk == "1" && pages >= 5 {
					// the first pages are enough for page size 1
					got = append(got, keys[len(got):]...)
					break
				}
			}
			if ok && strings.Join(got, "\x00") != strings.Join(keys, "\x00") {
				bad("mismatch", fmt.Sprintf("walk returned %d keys in %d pages, want %d (first difference near %q)", len(got), pages, len(keys), firstDiff(got, keys)))
			}
		}
	}
	c.AddSample(map[string]interface{}{"large_bucket_keys": len(keys), "page_sizes": []string{"default", "1000", "1001", "999", "5000", "1"}})
}

func firstDiff(a, b []string) string {
	for i := range a {
		if i >= len(b) || a[i] != b[i] {
			return a[i]
		}
	}
	if len(b) > len(a) {
		return b[len(a)]
	}
	return ""
}

// bigVersions: C13 with more than 1000 versions of two keys.
func bigVersions(c *engine.Ctx) {
	w, err := drv.NewWorld(drv.Config{Kind: drv.Mem})
	if err != nil {
		engine.HarnessError("big: %v", err)
	}
	defer w.Close()
	w.Do(drv.Req{Method: "PUT", Path: "/aaa"})
	w.Do(drv.Req{Method: "PUT", Path: "/aaa", Query: "versioning", Body: []byte(xmlVerEnabled)})
	want := map[string]bool{}
	total := 0
	for i := 0; i < bigN; i++ {
		k := "a"
		if i%2 == 1 {
			k = "b"
		}
		r := w.Do(drv.Req{Method: "PUT", Path: "/aaa/" + k, Body: []byte(strconv.Itoa(i))})
		id := r.Header.Get("x-amz-version-id")
		if r.Status != 200 || id == "" {
			engine.HarnessError("big version put: %s", r.Short())
		}
		want[k+"@"+id] = true
		total++
	}
	for _, mk := range []string{"", "1000", "1001", "999", "5000"} {
		got := map[string]int{}
		n := 0
		km, vm := "", ""
		pages := 0
		bad := func(field, msg string) {
			c.Report(&engine.Violation{Sig: sig("C13", "mem", "big-bucket", field), World: "mem", History: []string{fmt.Sprintf("%d versions, max-keys=%q", total, mk)},
				Msg: fmt.Sprintf("%d versions of 2 keys, max-keys=%q: %s", total, mk, msg)})
		}
		for {
			pages++
			if pages > 10 {
				bad("no-termination", "still truncated after 10 pages")
				break
			}
			q := ""
			if mk != "" {
				q = "max-keys=" + mk
			}
			if km != "" {
				q = joinQ(q, drv.Q("key-marker", km, "version-id-marker", vm))
			}
			vp := w.ListVersions("aaa", q)
			c.Add(0, 1, 1, 1)
			if vp.Status != 200 || vp.Panic != "" {
				bad("status", fmt.Sprintf("%d %s %s", vp.Status, vp.Code, panicOf(vp.Panic)))
				break
			}
			if len(vp.Entries) > 1000 {
				bad("over-page-size", fmt.Sprintf("page with %d entries", len(vp.Entries)))
				break
			}
			for _, e := range vp.Entries {
				got[e.Key+"@"+e.ID]++
				n++
			}
			if !vp.IsTruncated {
				break
			}
			km, vm = vp.NextKey, vp.NextVer
			if km == "" || vm == "" {
				bad("no-next-markers", "truncated without markers")
				break
			}
		}
		okAll := n == total
		for k := range want {
			if got[k] != 1 {
				okAll = false
			}
		}
		if !okAll {
			bad("mismatch", fmt.Sprintf("walk returned %d entries (%d distinct) in %d pages, want each of %d exactly once", n, len(got), pages, total))
		}
	}
}

// bigMultipart: C14 with more than 1000 parts and more than 1000 uploads.
func bigMultipart(c *engine.Ctx) {
	w, err := drv.NewWorld(drv.Config{Kind: drv.Mem})
	if err != nil {
		engine.HarnessError("big: %v", err)
	}
	defer w.Close()
	w.Do(drv.Req{Method: "PUT", Path: "/aaa"})
	initiate := func(key string) string {
		r := w.Do(drv.Req{Method: "POST", Path: "/aaa/" + key, Query: "uploads"})
		n := r.XML()
		if n == nil || n.T("UploadId") == "" {
			engine.HarnessError("big initiate: %s", r.Short())
		}
		return n.T("UploadId")
	}
	id := initiate("parts")
	var nums []int
	for i := 1; i <= bigN; i++ {
		pn := i * 3 // gaps
		nums = append(nums, pn)
		if r := w.Do(drv.Req{Method: "PUT", Path: "/aaa/parts", Query: drv.Q("uploadId", id, "partNumber", strconv.Itoa(pn)), Body: []byte("p")}); r.Status != 200 {
			engine.HarnessError("big part: %s", r.Short())
		}
	}
	for _, mp := range []string{"", "1000", "1001", "999", "5000"} {
		var got []int
		marker := -1
		pages := 0
		bad := func(field, msg string) {
			c.Report(&engine.Violation{Sig: sig("C14", "any", "big-upload", "parts", field), World: "mem", History: []string{fmt.Sprintf("%d parts, max-parts=%q", len(nums), mp)},
				Msg: fmt.Sprintf("upload with %d parts, max-parts=%q: %s", len(nums), mp, msg)})
		}
		for {
			pages++
			if pages > 10 {
				bad("no-termination", "still truncated after 10 pages")
				break
			}
			q := ""
			if mp != "" {
				q = "max-parts=" + mp
			}
			if marker >= 0 {
				q = joinQ(q, "part-number-marker="+strconv.Itoa(marker))
			}
			pp := w.ListParts("aaa", "parts", id, q)
			c.Add(0, 1, 1, 1)
			if pp.Status != 200 || pp.Panic != "" {
				bad("status", fmt.Sprintf("%d %s %s", pp.Status, pp.Code, panicOf(pp.Panic)))
				break
			}
			if len(pp.Parts) > 1000 {
				bad("over-page-size", fmt.Sprintf("page with %d parts", len(pp.Parts)))
				break
			}
			for _, p := range pp.Parts {
				got = append(got, p.N)
			}
			if !pp.IsTruncated {
				break
			}
			marker = pp.NextMarker
		}
		if fmt.Sprint(got) != fmt.Sprint(nums) {
			bad("mismatch", fmt.Sprintf("walk returned %d parts in %d pages, want %d", len(got), pages, len(nums)))
		}
	}
	// many uploads: 3 per key over 335 keys
	var want []string
	for i := 0; i < 335; i++ {
		for j := 0; j < 3; j++ {
			k := fmt.Sprintf("up/%04d", i)
			want = append(want, k+"|"+initiate(k))
		}
	}
	sort.SliceStable(want, func(i, j int) bool { return strings.SplitN(want[i], "|", 2)[0] < strings.SplitN(want[j], "|", 2)[0] })
	for _, mu := range []string{"", "1000", "1001", "999", "5000", "4"} {
		var got []string
		km, im := "", ""
		pages := 0
		bad := func(field, msg string) {
			c.Report(&engine.Violation{Sig: sig("C14", "any", "big-upload", "uploads", field), World: "mem", History: []string{fmt.Sprintf("%d uploads, max-uploads=%q", len(want), mu)},
				Msg: fmt.Sprintf("%d pending uploads, max-uploads=%q: %s", len(want), mu, msg)})
		}
		for {
			pages++
			if pages > 400 {
				bad("no-termination", "still truncated after 400 pages")
				break
			}
			q := drv.Q("prefix", "up/")
			if mu != "" {
				q = joinQ(q, "max-uploads="+mu)
			}
			if km != "" {
				q = joinQ(q, drv.Q("key-marker", km, "upload-id-marker", im))
			}
			up := w.ListUploads("aaa", q)
			c.Add(0, 1, 1, 1)
			if up.Status != 200 || up.Panic != "" {
				bad("status", fmt.Sprintf("%d %s %s", up.Status, up.Code, panicOf(up.Panic)))
				break
			}
			if len(up.Uploads) > 1000 {
				bad("over-page-size", fmt.Sprintf("page with %d uploads", len(up.Uploads)))
				break
			}
			for _, u := range up.Uploads {
				got = append(got, u.Key+"|"+u.ID)
			}
			if !up.IsTruncated {
				break
			}
			km, im = up.NextKey, up.NextID
			if km == "" {
				bad("no-next-markers", "truncated without NextKeyMarker")
				break
			}
		}
		if strings.Join(got, "\n") != strings.Join(want, "\n") {
			bad("mismatch", fmt.Sprintf("walk returned %d uploads in %d pages, want %d in key/initiation order (first difference near %q)", len(got), pages, len(want), firstDiff(got, want)))
		}
	}
	_ = model.PartETag
}

// bigComplete (C06): a complete request that lists more parts than any page or
// clamp holds (1003 parts, numbers with gaps up to 10000) is assembled exactly.
func bigComplete(c *engine.Ctx) {
	for _, kind := range []drv.Kind{drv.Mem, drv.Bolt} {
		w, err := drv.NewWorld(drv.Config{Kind: kind})
		if err != nil {
			engine.HarnessError("big: %v", err)
		}
		w.Do(drv.Req{Method: "PUT", Path: "/aaa"})
		r := w.Do(drv.Req{Method: "POST", Path: "/aaa/big", Query: "uploads", Header: drv.H(mpMetaKey, "big")})
		n := r.XML()
		if n == nil || n.T("UploadId") == "" {
			engine.HarnessError("big initiate: %s", r.Short())
		}
		id := n.T("UploadId")
		var list []model.CPart
		var want []byte
		h := md5.New()
		for i := 1; i <= bigN; i++ {
			pn := i * 9 // gaps; the highest number is 9027
			if i == bigN {
				pn = 10000
			}
			body := []byte{byte('a' + i%26)}
			if r := w.Do(drv.Req{Method: "PUT", Path: "/aaa/big", Query: drv.Q("uploadId", id, "partNumber", strconv.Itoa(pn)), Body: body}); r.Status != 200 {
				engine.HarnessError("big part: %s", r.Short())
			}
			list = append(list, model.CPart{N: pn, ETag: model.PartETag(body)})
			want = append(want, body...)
			s := md5.Sum(body)
			h.Write(s[:])
		}
		bad := func(field, format string, a ...interface{}) {
			c.Report(&engine.Violation{Sig: sig("C06", "any", "big-complete", field), World: string(kind), History: []string{fmt.Sprintf("complete with %d parts", len(list))},
				Msg: fmt.Sprintf("complete of an upload with %d parts on %s: ", len(list), kind) + fmt.Sprintf(format, a...)})
		}
		cr := w.Do(drv.Req{Method: "POST", Path: "/aaa/big", Query: drv.Q("uploadId", id), Body: completeBody(list)})
		c.Add(1, 1, 1, 1)
		etag := fmt.Sprintf(`"%s-%d"`, hex.EncodeToString(h.Sum(nil)), len(list))
		switch {
		case cr.Panic != "":
			bad("panic@"+drv.PanicFrame(cr.Panic), "%s", firstLine(cr.Panic))
		case cr.Status != 200:
			bad("status", "a valid ascending list with correct ETags answered %s", cr.Short())
		default:
			if x := cr.XML(); x == nil || x.T("ETag") != etag {
				bad("etag", "result ETag differs from %s: %s", etag, clip(string(cr.Body), 200))
			}
			v := w.Get("aaa", "big")
			if v.Status != 200 || !bytes.Equal(v.Body, want) || v.Meta[mpMetaKey] != "big" {
				bad("object", "GET answers %d with %d bytes (want %d), metadata %q", v.Status, len(v.Body), len(want), v.Meta[mpMetaKey])
			}
			if pp := w.ListParts("aaa", "big", id, ""); pp.Status != 404 {
				bad("upload-still-exists", "ListParts after complete answers %d", pp.Status)
			}
		}
		w.Close()
	}
}
