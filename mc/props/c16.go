package props

import (
	"fmt"
	"net/url"
	"regexp"
	"sort"
	"strconv"
	"strings"
	"time"

	"verifmc/drv"
	"verifmc/engine"
)

// C16 — path-style vs virtual-host addressing: (a) twin worlds driven with the
// same logical history (seqmc), (b) complete routing matrix (inputmc).

type c16Op struct {
	name   string
	method string
	key    string // "" = bucket level
	query  string
	hdr    [][2]string
	body   string
	useVer bool // append versionId of the latest version id seen
	useUp  bool // append uploadId of the open upload
}

func (o c16Op) String() string { return o.name }

type c16Sys struct {
	p, h    *drv.World
	ops     []engine.Op
	lastVer string
	upload  string
	kind    drv.Kind
	mode    string
	last    string
}

var locRe = regexp.MustCompile(`<Location>[^<]*</Location>`)
var lmRe = regexp.MustCompile(`\s*<LastModified>[^<]*</LastModified>`)

func c16Canon(r drv.Resp) string {
	if r.Panic != "" {
		return "PANIC@" + drv.PanicFrame(r.Panic)
	}
	var hs []string
	for _, k := range []string{"ETag", "Content-Length", "Content-Range", "x-amz-version-id", "x-amz-delete-marker", "Content-Type", "x-amz-meta-a", "Location"} {
		if v := r.Header.Get(k); v != "" {
			hs = append(hs, k+"="+v)
		}
	}
	body := locRe.ReplaceAllString(string(r.Body), "<Location/>")
	body = lmRe.ReplaceAllString(body, "") // CopyObjectResult carries time.Now()
	if strings.Contains(body, "<ListAllMyBucketsResult") {
		// the memory backend lists buckets in map order
		if n := r.XML(); n != nil {
			var names []string
			for _, b := range n.Child("Buckets").All("Bucket") {
				names = append(names, b.T("Name"))
			}
			sort.Strings(names)
			body = "ListAllMyBucketsResult" + strings.Join(names, ",")
		}
	}
	return fmt.Sprintf("%d|%s|%s", r.Status, strings.Join(hs, ";"), body)
}

func c16Ops() []engine.Op {
	ver := func(st string) string {
		return "<VersioningConfiguration><Status>" + st + "</Status></VersioningConfiguration>"
	}
	return []engine.Op{
		c16Op{name: "create-bucket", method: "PUT"},
		c16Op{name: "put k A", method: "PUT", key: "k", body: "A", hdr: drv.H("x-amz-meta-a", "1")},
		c16Op{name: "put k BB", method: "PUT", key: "k", body: "BB"},
		c16Op{name: "put d/x C", method: "PUT", key: "d/x", body: "C"},
		c16Op{name: "delete k", method: "DELETE", key: "k"},
		c16Op{name: "copy k->d/x", method: "PUT", key: "d/x", hdr: drv.H("X-Amz-Copy-Source", "/aaa/k")},
		c16Op{name: "multi-delete", method: "POST", query: "delete", body: "<Delete><Object><Key>k</Key></Object><Object><Key>nokey</Key></Object></Delete>"},
		c16Op{name: "versioning Enabled", method: "PUT", query: "versioning", body: ver("Enabled")},
		c16Op{name: "versioning Suspended", method: "PUT", query: "versioning", body: ver("Suspended")},
		c16Op{name: "delete-version k@last", method: "DELETE", key: "k", useVer: true},
		c16Op{name: "initiate k", method: "POST", key: "k", query: "uploads", hdr: drv.H("x-amz-meta-a", "up")},
		c16Op{name: "upload-part #1", method: "PUT", key: "k", query: "partNumber=1", body: "pp", useUp: true},
		c16Op{name: "complete [1]", method: "POST", key: "k", body: "<CompleteMultipartUpload><Part><PartNumber>1</PartNumber><ETag>" + drv.ETagOf([]byte("pp")) + "</ETag></Part></CompleteMultipartUpload>", useUp: true},
		c16Op{name: "abort", method: "DELETE", key: "k", useUp: true},
		c16Op{name: "form-upload f", method: "POST", hdr: drv.H("Content-Type", "multipart/form-data; boundary=verifboundary"), body: func() string { b, _ := formBody("f", []byte("form"), nil); return string(b) }()},
		c16Op{name: "delete-bucket", method: "DELETE"},
	}
}

func newC16Sys(kind drv.Kind, mode string) (*c16Sys, error) {
	p, err := drv.NewWorld(drv.Config{Kind: kind})
	if err != nil {
		return nil, err
	}
	hc := drv.Config{Kind: kind, HostBucket: true}
	if mode == "bases" {
		hc = drv.Config{Kind: kind, HostBases: []string{drv.HostBase, "other.example"}}
	}
	if mode == "host-bucket+empty-base-list" {
		hc = drv.Config{Kind: kind, HostBucket: true, HostBasesEmpty: true}
	}
	h, err := drv.NewWorld(hc)
	if err != nil {
		p.Close()
		return nil, err
	}
	return &c16Sys{p: p, h: h, ops: c16Ops(), kind: kind, mode: mode}, nil
}

func (s *c16Sys) Close()           { s.p.Close(); s.h.Close() }
func (s *c16Sys) Ops() []engine.Op { return s.ops }
func (s *c16Sys) Key() string {
	return drv.KeyOf(s.p.Snapshot(drv.SnapOpts{Versions: s.kind == drv.Mem, Uploads: true, Buckets: []string{"aaa"}}) + "|" + s.upload + "|" + fmt.Sprint(s.lastVer != "") + "TWIN\n" + s.h.Snapshot(drv.SnapOpts{Versions: s.kind == drv.Mem, Uploads: true}))
}

// both sends the same logical request path-style to p and host-style to h.
func (s *c16Sys) both(method, key, query string, hdr [][2]string, body []byte) (drv.Resp, drv.Resp) {
	path := "/aaa"
	hpath := "/"
	if key != "" {
		path += "/" + key
		hpath = "/" + key
	}
	rp := s.p.Do(drv.Req{Method: method, Path: path, Query: query, Header: hdr, Body: body, Host: drv.HostBase})
	rh := s.h.Do(drv.Req{Method: method, Path: hpath, Query: query, Header: hdr, Body: body, Host: "aaa." + drv.HostBase})
	return rp, rh
}

func (s *c16Sys) Apply(op engine.Op) (string, *engine.Violation) {
	o := op.(c16Op)
	s.last = o.name
	q := o.query
	if o.useVer {
		v := s.lastVer
		if v == "" {
			v = "3/NOSUCHVERSION"
		}
		q = joinQ(q, drv.Q("versionId", v))
	}
	if o.useUp {
		u := s.upload
		if u == "" {
			u = "999"
		}
		q = joinQ(q, drv.Q("uploadId", u))
	}
	var body []byte
	if o.body != "" || o.method == "PUT" || o.method == "POST" {
		body = []byte(o.body)
	}
	rp, rh := s.both(o.method, o.key, q, o.hdr, body)
	cp, ch := c16Canon(rp), c16Canon(rh)
	if cp != ch {
		return cp, viol(sig("C16", string(s.kind), s.mode, "step", strings.Fields(o.name)[0], "answers-differ"), "%s: path-style answered %s but host-style answered %s", o.name, clip(cp, 300), clip(ch, 300))
	}
	if v := rp.Header.Get("x-amz-version-id"); v != "" && rp.Status < 300 {
		s.lastVer = v
	}
	if strings.HasPrefix(o.name, "initiate") && rp.Status == 200 {
		if n := rp.XML(); n != nil {
			s.upload = n.T("UploadId")
		}
	}
	if strings.HasPrefix(o.name, "complete") && rp.Status == 200 {
		lp, lh := "", ""
		if n := rp.XML(); n != nil {
			lp = n.T("Location")
		}
		if n := rh.XML(); n != nil {
			lh = n.T("Location")
		}
		wantP := "http://" + drv.HostBase + "/aaa/k"
		wantH := "http://aaa." + drv.HostBase + "/k"
		if s.mode == "bases" {
			// Location form depends on the host-bucket option only (statement: "depends on the mode")
			wantH = "http://aaa." + drv.HostBase + "/aaa/k"
		}
		if lp != wantP || (lh != wantH && lh != "http://aaa."+drv.HostBase+"/k") {
			return cp, viol(sig("C16", string(s.kind), s.mode, "step", "complete", "location"), "complete: Location path-style %q (want %q), host-style %q (want %q)", lp, wantP, lh, wantH)
		}
		// whatever its form, the Location names the object under the addressing the request
		// used: a GET of it on the same server returns the completed object
		for _, lw := range []struct {
			w   *drv.World
			loc string
		}{{s.p, lp}, {s.h, lh}} {
			u, perr := url.Parse(lw.loc)
			if perr != nil {
				return cp, viol(sig("C16", string(s.kind), s.mode, "step", "complete", "location-unparsable"), "complete: Location %q", lw.loc)
			}
			g := lw.w.Do(drv.Req{Method: "GET", Path: u.Path, Host: u.Host})
			if g.Status != 200 || string(g.Body) != "pp" {
				return cp, viol(sig("C16", string(s.kind), s.mode, "step", "complete", "location-does-not-lead-to-the-object"), "complete: a GET of the returned Location %q answers %s, want the completed object", lw.loc, g.Short())
			}
		}
	}
	if (strings.HasPrefix(o.name, "complete") || o.name == "abort") && rp.Status < 300 {
		s.upload = ""
	}
	return cp, nil
}

func (s *c16Sys) Check() ([]*engine.Violation, int64) {
	var vs []*engine.Violation
	var n int64
	type rd struct {
		name, method, key, query string
		hdr                      [][2]string
	}
	reads := []rd{
		{"head-bucket", "HEAD", "", "", nil}, {"list-v1", "GET", "", "", nil}, {"list-v1-delim", "GET", "", "prefix=d&delimiter=%2F&max-keys=1", nil},
		{"list-v2", "GET", "", "list-type=2&max-keys=1", nil}, {"location", "GET", "", "location", nil}, {"get-versioning", "GET", "", "versioning", nil},
		{"list-versions", "GET", "", "versions", nil}, {"list-uploads", "GET", "", "uploads", nil},
		{"get k", "GET", "k", "", nil}, {"head k", "HEAD", "k", "", nil}, {"get d/x", "GET", "d/x", "", nil}, {"get k range", "GET", "k", "", drv.H("Range", "bytes=0-0")},
		{"get f", "GET", "f", "", nil},
		// refusals decided before the route is known (a query string that cannot be parsed)
		{"get-version bad-escape", "GET", "k", "versionId=%zz", nil}, {"list bad-escape", "GET", "", "prefix=%", nil}, {"list-parts bad-escape", "GET", "k", "uploadId=1%2", nil},
	}
	if s.lastVer != "" {
		reads = append(reads, rd{"get-version", "GET", "k", drv.Q("versionId", s.lastVer), nil}, rd{"head-version", "HEAD", "k", drv.Q("versionId", s.lastVer), nil})
	}
	if s.upload != "" {
		reads = append(reads, rd{"list-parts", "GET", "k", drv.Q("uploadId", s.upload), nil})
	}
	for _, r := range reads {
		rp, rh := s.both(r.method, r.key, r.query, r.hdr, nil)
		n += 2
		if cp, ch := c16Canon(rp), c16Canon(rh); cp != ch {
			vs = append(vs, viol(sig("C16", string(s.kind), s.mode, "read", r.name, "answers-differ"), "after %s, %s: path-style answered %s but host-style answered %s", s.last, r.name, clip(cp, 300), clip(ch, 300)))
			break
		}
	}
	return vs, n
}

// ---- routing matrix -------------------------------------------------------

func c16Matrix(c *engine.Ctx) {
	type opt struct {
		name  string
		cfg   drv.Config
		bases []string
	}
	opts := []opt{
		{"host-bucket", drv.Config{Kind: drv.Mem, HostBucket: true}, nil},
		{"bases[b1]", drv.Config{Kind: drv.Mem, HostBases: []string{"b1.test"}}, []string{"b1.test"}},
		{"bases[b1,b2]", drv.Config{Kind: drv.Mem, HostBases: []string{"b1.test", "b2.example"}}, []string{"b1.test", "b2.example"}},
		{"bases[b1:port]", drv.Config{Kind: drv.Mem, HostBases: []string{"b1.test:9000"}}, []string{"b1.test:9000"}},
		{"bases[B1.Test]", drv.Config{Kind: drv.Mem, HostBases: []string{"B1.Test"}}, []string{"B1.Test"}},
		{"bases[b2]-replaced-by-bases[b1]", drv.Config{Kind: drv.Mem, HostBasesFirst: []string{"b2.example"}, HostBases: []string{"b1.test"}}, []string{"b1.test"}},
		{"bases[.b1.]", drv.Config{Kind: drv.Mem, HostBases: []string{".b1.test."}}, []string{"b1.test"}},
		{"bases[test,b1.test]", drv.Config{Kind: drv.Mem, HostBases: []string{"test", "b1.test"}}, []string{"test", "b1.test"}},
		{"bases[b1.test,test]", drv.Config{Kind: drv.Mem, HostBases: []string{"b1.test", "test"}}, []string{"b1.test", "test"}},
		{"bases[b1]+host-bucket", drv.Config{Kind: drv.Mem, HostBucket: true, HostBases: []string{"b1.test"}}, []string{"b1.test"}},
		{"bases[b1]+host-bucket=false-given-last", drv.Config{Kind: drv.Mem, HostBases: []string{"b1.test"}, HostBucketOffLast: true}, []string{"b1.test"}},
	}
	hosts := []string{"aaa.b1.test", "aaa.b2.example", "aaa.b1.test:9000", "b1.test", "x.aaa.b1.test", "unrelated.org", ".b1.test", "aaa.b1.test.", "AAA.b1.test", "aaa", "bbb.b1.test", "aaa.xb1.test", "aaa.B1.Test"}
	paths := []string{"/", "/k", "/k/", "//k", "/d/x/", "/aaa/k", "/aaa", "//aaa//k/", "/aaa/", "/bbb/k"}
	// request targets whose escaping is not Go's default one (net/http then keeps URL.RawPath)
	rawTargets := []string{"/k%3Dv", "/d%2Fx", "/aaa/k%3Dv", "/k%2Bp%40q%3Ar", "/k!*()"}
	type route struct {
		method, query string
		hdr           [][2]string
		body          string
	}
	routes := []route{{"GET", "", nil, ""}, {"HEAD", "", nil, ""}, {"PUT", "", nil, "new"}, {"DELETE", "", nil, ""}, {"GET", "versions", nil, ""}, {"GET", "uploads", nil, ""},
		{"GET", "location", nil, ""}, {"GET", "versioning", nil, ""}, {"GET", "list-type=2", nil, ""}, {"POST", "uploads", nil, ""}, {"POST", "delete", nil, "<Delete><Object><Key>k</Key></Object></Delete>"},
		{"GET", "versionId=null", nil, ""}, {"PUT", "", drv.H("X-Amz-Copy-Source", "/aaa/k"), ""}}
	setup := func(w *drv.World) {
		for _, b := range []string{"aaa", "bbb"} {
			w.Backend.CreateBucket(b)
			for _, k := range []string{"k", "d/x", "aaa/k", "/k", "k=v", "k+p@q:r", "k!*()"} {
				w.Backend.PutObject(b, k, map[string]string{"x-amz-meta-a": b + k}, strings.NewReader("body-"+b+"-"+k), int64(len("body-"+b+"-"+k)))
			}
		}
	}
	type job struct {
		o    opt
		host string
		path string
		r    route
		raw  bool // path is a raw request target
		// prime: Host of a request served by the same server just before (routing must not
		// remember anything: the answer has to be the one a fresh server gives)
		prime string
	}
	var jobs []job
	for _, o := range opts {
		for _, h := range hosts {
			for _, p := range paths {
				for _, r := range routes {
					jobs = append(jobs, job{o, h, p, r, false, ""})
				}
			}
			for _, p := range rawTargets {
				for _, r := range routes[:4] {
					jobs = append(jobs, job{o, h, p, r, true, ""})
				}
			}
			for _, h1 := range hosts {
				if h1 == h {
					continue
				}
				for _, p := range []string{"/k", "/aaa/k"} {
					jobs = append(jobs, job{o, h, p, routes[0], false, h1})
				}
			}
		}
	}
	c.Bounds["matrix_cases"] = len(jobs)
	engine.ParallelFor(len(jobs), func(_, i int) {
		jb := jobs[i]
		hw, err := drv.NewWorld(jb.o.cfg)
		if err != nil {
			engine.HarnessError("C16: %v", err)
		}
		defer hw.Close()
		pw, _ := drv.NewWorld(drv.Config{Kind: drv.Mem})
		defer pw.Close()
		setup(hw)
		setup(pw)
		// expected effective path-style URL
		eff := jb.path
		label, matched := "", false
		if len(jb.o.bases) > 0 {
			// a list of bases takes precedence; only '<single label>.<base>' is rewritten
			for _, b := range jb.o.bases {
				if strings.HasSuffix(jb.host, "."+b) {
					if l := jb.host[:len(jb.host)-len(b)-1]; !strings.Contains(l, ".") && l != "" {
						label, matched = l, true
						break
					}
				}
			}
		} else {
			label, matched = strings.SplitN(jb.host, ".", 2)[0], true
		}
		if matched {
			if jb.path == "/" {
				eff = "/" + label
			} else {
				eff = "/" + label + jb.path
			}
		}
		var body []byte
		if jb.r.body != "" || jb.r.method == "PUT" || jb.r.method == "POST" {
			body = []byte(jb.r.body)
		}
		reqH := drv.Req{Method: jb.r.method, Path: jb.path, Query: jb.r.query, Header: jb.r.hdr, Body: body, Host: jb.host}
		reqP := drv.Req{Method: jb.r.method, Path: eff, Query: jb.r.query, Header: jb.r.hdr, Body: body, Host: jb.host}
		if jb.raw {
			reqH.RawTarget, reqP.RawTarget = jb.path, eff
		}
		if jb.prime != "" {
			hw.Do(drv.Req{Method: "GET", Path: "/k", Host: jb.prime})
			hw.Do(drv.Req{Method: "GET", Path: "/aaa/k", Host: jb.prime})
		}
		rh := hw.Do(reqH)
		rp := pw.Do(reqP)
		c.Add(0, 1, 1, 2)
		ch, cp := c16Canon(rh), c16Canon(rp)
		if ch == cp {
			c.Distinct(fmt.Sprintf("%s|%v|%s", jb.o.name, matched, cp[:min(len(cp), 12)]))
			return
		}
		hc := "other-host"
		if matched {
			hc = "label+base"
		}
		what := "answers-differ"
		if jb.prime != "" {
			what = "answers-differ-after-a-request-for-another-host"
		}
		c.Report(&engine.Violation{Sig: sig("C16", "routing", jb.o.name, hc, what), World: jb.o.name,
			History: []string{fmt.Sprintf("(primed with Host %q) %s %s?%s Host: %s", jb.prime, jb.r.method, jb.path, jb.r.query, jb.host)},
			Msg:     fmt.Sprintf("option %s, Host %q, %s %s?%s: answered %s; the path-style request %s answers %s", jb.o.name, jb.host, jb.r.method, jb.path, jb.r.query, clip(ch, 200), eff, clip(cp, 200))})
	})
	// hosts that fall back to path-style: a whole multipart sequence must be
	// answered exactly as by a path-style server, the Location element included
	matches := func(o opt, host string) bool {
		if len(o.bases) == 0 {
			return true
		}
		for _, b := range o.bases {
			if strings.HasSuffix(host, "."+b) {
				if l := host[:len(host)-len(b)-1]; !strings.Contains(l, ".") && l != "" {
					return true
				}
			}
		}
		return false
	}
	for _, o := range opts {
		for _, host := range hosts {
			if matches(o, host) {
				continue
			}
			hw, err := drv.NewWorld(o.cfg)
			if err != nil {
				engine.HarnessError("C16: %v", err)
			}
			pw, _ := drv.NewWorld(drv.Config{Kind: drv.Mem})
			setup(hw)
			setup(pw)
			id := ""
			steps := []struct{ name, method, query, body string }{
				{"initiate", "POST", "uploads", ""},
				{"upload-part", "PUT", "partNumber=1&uploadId=ID", "pp"},
				{"complete", "POST", "uploadId=ID", "<CompleteMultipartUpload><Part><PartNumber>1</PartNumber><ETag>" + drv.ETagOf([]byte("pp")) + "</ETag></Part></CompleteMultipartUpload>"},
			}
			for _, st := range steps {
				q := strings.ReplaceAll(st.query, "ID", id)
				rh := hw.Do(drv.Req{Method: st.method, Path: "/aaa/d/x", Query: q, Body: []byte(st.body), Host: host})
				rp := pw.Do(drv.Req{Method: st.method, Path: "/aaa/d/x", Query: q, Body: []byte(st.body), Host: host})
				c.Add(0, 1, 1, 2)
				ah := fmt.Sprintf("%d|%s|%s", rh.Status, rh.Header.Get("ETag"), rh.Body)
				ap := fmt.Sprintf("%d|%s|%s", rp.Status, rp.Header.Get("ETag"), rp.Body)
				if rh.Panic != "" || ah != ap {
					c.Report(&engine.Violation{Sig: sig("C16", "routing", o.name, "other-host", "multipart-"+st.name, "answers-differ"), World: o.name,
						History: []string{fmt.Sprintf("%s /aaa/d/x?%s Host: %s", st.method, q, host)},
						Msg:     fmt.Sprintf("option %s, Host %q falls back to path-style, %s: answered %s %s; a path-style server answers %s", o.name, host, st.name, clip(ah, 300), panicOf(rh.Panic), clip(ap, 300))})
					break
				}
				if st.name == "initiate" {
					if n := rp.XML(); n != nil {
						id = n.T("UploadId")
					}
				}
			}
			hw.Close()
			pw.Close()
		}
	}
	// the Location of a completed upload is an address: it leads to the object also when
	// the key holds characters that mean something in a URL
	for _, lm := range []struct {
		name string
		cfg  drv.Config
		host string
		pfx  string
	}{
		{"path-style", drv.Config{Kind: drv.Mem}, drv.HostBase, "/aaa/"},
		{"host-bucket", drv.Config{Kind: drv.Mem, HostBucket: true}, "aaa." + drv.HostBase, "/"},
		{"bases", drv.Config{Kind: drv.Mem, HostBases: []string{drv.HostBase}}, "aaa." + drv.HostBase, "/"},
	} {
		for _, key := range []string{"q?x", "h#x", "100%", "25%25", "sp ace", "a/b c", "pl+us", "ü/日", "semi;colon", "a&b=c"} {
			lw, err := drv.NewWorld(lm.cfg)
			if err != nil {
				engine.HarnessError("C16: %v", err)
			}
			lw.Do(drv.Req{Method: "PUT", Path: "/aaa", Host: drv.HostBase})
			if lm.name != "path-style" {
				lw.Do(drv.Req{Method: "PUT", Path: "/", Host: lm.host})
			}
			id, loc := "", ""
			r := lw.Do(drv.Req{Method: "POST", Path: lm.pfx + key, Query: "uploads", Host: lm.host})
			if n := r.XML(); n != nil {
				id = n.T("UploadId")
			}
			lw.Do(drv.Req{Method: "PUT", Path: lm.pfx + key, Query: drv.Q("partNumber", "1", "uploadId", id), Body: []byte("pp"), Host: lm.host})
			r = lw.Do(drv.Req{Method: "POST", Path: lm.pfx + key, Query: drv.Q("uploadId", id), Host: lm.host,
				Body: []byte("<CompleteMultipartUpload><Part><PartNumber>1</PartNumber><ETag>" + drv.ETagOf([]byte("pp")) + "</ETag></Part></CompleteMultipartUpload>")})
			if n := r.XML(); n != nil && r.Status == 200 {
				loc = n.T("Location")
			}
			c.Add(0, 1, 1, 4)
			rep := func(field, msg string) {
				c.Report(&engine.Violation{Sig: sig("C16", "routing", lm.name, "complete", field), World: lm.name, History: []string{"multipart upload of key " + strconv.Quote(key)},
					Msg: fmt.Sprintf("%s, key %q: %s", lm.name, key, msg)})
			}
			if loc == "" {
				rep("setup", "complete answered "+r.Short())
			} else if u, perr := url.Parse(loc); perr != nil {
				rep("location-unparsable", fmt.Sprintf("Location %q: %v", loc, perr))
			} else if g := lw.Do(drv.Req{Method: "GET", RawTarget: u.RequestURI(), Host: u.Host}); g.Status != 200 || string(g.Body) != "pp" {
				rep("location-does-not-lead-to-the-object", fmt.Sprintf("a GET of the returned Location %q answers %s, want the completed object", loc, g.Short()))
			} else {
				c.Distinct("location " + lm.name + " " + key)
			}
			lw.Close()
		}
	}
	// slash equivalence in path-style
	w, _ := drv.NewWorld(drv.Config{Kind: drv.Mem})
	defer w.Close()
	setup(w)
	for _, pair := range [][2]string{{"/aaa/k", "/aaa/k/"}, {"/aaa/k", "//aaa/k"}, {"/aaa/k", "///aaa/k//"}, {"/aaa", "/aaa/"}, {"/aaa", "//aaa//"}, {"/aaa/d/x", "/aaa/d/x/"}} {
		for _, m := range []string{"GET", "HEAD"} {
			a := c16Canon(w.Do(drv.Req{Method: m, Path: pair[0]}))
			b := c16Canon(w.Do(drv.Req{Method: m, Path: pair[1]}))
			c.Add(0, 1, 1, 2)
			if a != b {
				c.Report(&engine.Violation{Sig: sig("C16", "routing", "slashes", m), World: "mem", History: []string{pair[0], pair[1]}, Msg: fmt.Sprintf("%s %s answers %s but %s answers %s", m, pair[0], clip(a, 200), pair[1], clip(b, 200))})
			}
		}
	}
}

func runC16(c *engine.Ctx) {
	c.Rule = "twin worlds: state = canonical snapshot of the path-style world; transition = one logical operation (bucket, object, copy, multi-delete, versioning, delete-version, multipart, form upload) sent path-style to one world and host-style to its twin, canonical responses must be equal at every step and for every read in every state; routing matrix: option x Host x path x route, the host-mode answer must equal the answer to the prescribed path-style URL; distinct_nontrivial = distinct canonical states + distinct matrix outcomes"
	c.Assumptions = append(c.Assumptions, "twin worlds use identical deterministic backends (same version seed, same clock)", "CompleteMultipartUpload's Location is compared with the form prescribed for the mode, everything else byte for byte")
	depth := 4
	kinds := []drv.Kind{drv.Mem, drv.Bolt, drv.MultiMem}
	if !quick(c) {
		depth = 6
		kinds = []drv.Kind{drv.Mem, drv.Bolt, drv.MultiMem, drv.MultiDir}
	}
	c.SpecBudget = c.Budget() / time.Duration(2*len(kinds)+2)
	for _, k := range kinds {
		modes := []string{"host-bucket", "bases"}
		if k == drv.Mem {
			modes = append(modes, "host-bucket+empty-base-list")
		}
		for _, mode := range modes {
			k, mode := k, mode
			name := "C16/" + string(k) + "/" + mode
			engine.RunSeq(c, engine.SeqSpec{Name: name, World: string(k) + "+" + mode, MaxDepth: depth,
				New: func() (engine.Sys, error) { return newC16Sys(k, mode) }})
			c.Bounds[name] = map[string]interface{}{"ops": len(c16Ops()), "depth": depth}
		}
	}
	c16Matrix(c)
}

func init() { Registry["C16"] = runC16 }
