package props

import (
	"fmt"
	"sort"
	"strings"
	"time"

	"verifmc/drv"
	"verifmc/engine"
	"verifmc/model"
)

// C02 — every operation sequence follows the bucket/object model (seqmc).

type c02Op struct {
	kind              string // create|delbucket|put|delete|multi|copy
	b, k              string
	b2, k2            string
	body              string
	meta              bool
	keys              []string
	quiet             bool
	nullVer, emptyVer bool // delete: with ?versionId=null / ?versionId=
	bogusVer          bool // multi-delete: every entry names a version id that does not exist
}

func (o c02Op) String() string {
	switch o.kind {
	case "create":
		return "create-bucket " + o.b
	case "delbucket":
		return "delete-bucket " + o.b
	case "put":
		m := ""
		if o.meta {
			m = " +meta"
		}
		return fmt.Sprintf("put %s/%s %q%s", o.b, o.k, o.body, m)
	case "delete":
		if o.emptyVer {
			return fmt.Sprintf("delete %s/%s?versionId=", o.b, o.k)
		}
		if o.nullVer {
			return fmt.Sprintf("delete %s/%s?versionId=null", o.b, o.k)
		}
		return fmt.Sprintf("delete %s/%s", o.b, o.k)
	case "multi":
		if o.bogusVer {
			return fmt.Sprintf("multi-delete %s %v VersionId=<no such version>", o.b, o.keys)
		}
		if o.nullVer {
			return fmt.Sprintf("multi-delete %s %v VersionId=null", o.b, o.keys)
		}
		return fmt.Sprintf("multi-delete %s %v quiet=%v", o.b, o.keys, o.quiet)
	case "copy":
		return fmt.Sprintf("copy %s/%s -> %s/%s", o.b, o.k, o.b2, o.k2)
	case "copymeta":
		return fmt.Sprintf("copy+meta %s/%s -> %s/%s", o.b, o.k, o.b2, o.k2)
	}
	return o.kind
}

type c02Universe struct {
	buckets []string
	keys    []string
	bodies  []string
	opKinds map[string]bool // nil = all
}

type c02Sys struct {
	w      *drv.World
	m      *model.Store
	u      *c02Universe
	ops    []engine.Op
	reopen bool // C15: clean reopen predicate instead of C02 reads
	propID string
	last   string
}

const c02MetaKey = "x-amz-meta-a"
const c02MetaVal = "v1"

func c02BuildOps(u *c02Universe) []engine.Op {
	var ops []engine.Op
	want := func(k string) bool { return u.opKinds == nil || u.opKinds[k] }
	if want("create") {
		for _, b := range u.buckets {
			ops = append(ops, c02Op{kind: "create", b: b})
		}
	}
	if want("put") {
		for _, b := range u.buckets {
			for _, k := range u.keys {
				for i, body := range u.bodies {
					ops = append(ops, c02Op{kind: "put", b: b, k: k, body: body, meta: i == 0})
				}
			}
		}
	}
	if want("delete") {
		for _, b := range u.buckets {
			for _, k := range u.keys {
				ops = append(ops, c02Op{kind: "delete", b: b, k: k})
			}
		}
		// the way some SDKs delete from an unversioned bucket: DELETE ?versionId=null
		ops = append(ops, c02Op{kind: "delete", b: u.buckets[0], k: u.keys[0], nullVer: true})
		ops = append(ops, c02Op{kind: "delete", b: u.buckets[0], k: u.keys[len(u.keys)-1], nullVer: true, emptyVer: true})
	}
	if want("delbucket") {
		for _, b := range u.buckets {
			ops = append(ops, c02Op{kind: "delbucket", b: b})
		}
	}
	if want("copy") {
		for _, sb := range u.buckets {
			for _, sk := range u.keys {
				for _, db := range u.buckets {
					for _, dk := range u.keys {
						ops = append(ops, c02Op{kind: "copy", b: sb, k: sk, b2: db, k2: dk})
					}
				}
			}
		}
	}
	if want("copy") && len(u.keys) > 1 {
		// a copy that sends its own metadata: the destination takes it, the source keeps its own
		for _, b := range u.buckets {
			ops = append(ops, c02Op{kind: "copymeta", b: b, k: u.keys[0], b2: b, k2: u.keys[1]})
		}
	}
	if want("multi") {
		for _, b := range u.buckets {
			sets := [][]string{u.keys, {u.keys[0], "missing"}}
			if len(u.keys) > 1 {
				sets = append(sets, []string{u.keys[len(u.keys)-1]})
			}
			for _, ks := range sets {
				for _, q := range []bool{false, true} {
					ops = append(ops, c02Op{kind: "multi", b: b, keys: ks, quiet: q})
				}
			}
			// the way boto3 empties a bucket: every entry names the version id the listing showed, "null"
			ops = append(ops, c02Op{kind: "multi", b: b, keys: u.keys, nullVer: true})
			// entries that name a version which does not exist delete nothing
			ops = append(ops, c02Op{kind: "multi", b: b, keys: u.keys, bogusVer: true})
		}
	}
	return ops
}

func newC02Sys(cfg drv.Config, u *c02Universe, ops []engine.Op) (*c02Sys, error) {
	w, err := drv.NewWorld(cfg)
	if err != nil {
		return nil, err
	}
	return &c02Sys{w: w, m: model.NewStore(cfg.AutoBucket, singleOf(cfg.Kind)), u: u, ops: ops, propID: "C02"}, nil
}

func (s *c02Sys) Ops() []engine.Op { return s.ops }
func (s *c02Sys) Close()           { s.w.Close() }

func (s *c02Sys) Key() string {
	probe := s.u.buckets
	if s.w.Cfg.AutoBucket {
		probe = nil // probing an unlisted bucket would auto-create it
	}
	// the memory backend can hold residue (delete markers, archived versions) that only
	// ListObjectVersions shows: it is part of the state key
	return drv.KeyOf(s.w.Snapshot(drv.SnapOpts{Buckets: probe, Versions: s.w.Cfg.Kind == drv.Mem}) + "MODEL\n" + s.m.Render())
}

func multiDeleteBody(keys []string, quiet bool) []byte {
	var sb strings.Builder
	sb.WriteString("<Delete>")
	if quiet {
		sb.WriteString("<Quiet>true</Quiet>")
	}
	for _, k := range keys {
		sb.WriteString("<Object><Key>" + xmlEsc(k) + "</Key></Object>")
	}
	sb.WriteString("</Delete>")
	return []byte(sb.String())
}

func xmlEsc(s string) string {
	r := strings.NewReplacer("&", "&amp;", "<", "&lt;", ">", "&gt;")
	return r.Replace(s)
}

func (s *c02Sys) cond(o c02Op) string {
	switch o.kind {
	case "put":
		if s.m.Get(o.b, o.k) != nil {
			return "overwrite"
		}
		return "new"
	case "copy", "copymeta":
		c := "other-key"
		if o.b == o.b2 && o.k == o.k2 {
			c = "self-copy"
		} else if o.b != o.b2 {
			c = "cross-bucket"
		}
		return c
	case "delbucket":
		if !s.m.Has(o.b) {
			return "absent"
		}
		if len(s.m.Buckets[o.b]) == 0 {
			return "empty"
		}
		return "non-empty"
	case "delete":
		if s.m.Get(o.b, o.k) != nil {
			return "existing"
		}
		return "missing"
	}
	return "-"
}

// fsRefuses: the filesystem layouts cannot hold a key that is a directory of
// another key or lies below another key; they may refuse such a write (with a
// client error, changing nothing) - statement of C10, "for the fs backends a
// request may be refused".
func (s *c02Sys) fsRefuses(b, k string) bool {
	if !s.w.Cfg.Kind.IsFs() || !s.m.Has(b) {
		return false
	}
	for _, other := range s.m.Keys(b) {
		if strings.HasPrefix(other, k+"/") || strings.HasPrefix(k, other+"/") {
			return true
		}
	}
	return false
}

func (s *c02Sys) Apply(op engine.Op) (string, *engine.Violation) {
	o := op.(c02Op)
	wk := string(s.w.Cfg.Kind)
	cond := s.cond(o)
	s.last = o.kind + ":" + cond
	bad := func(field string, r drv.Resp, e model.Exp, extra string) (string, *engine.Violation) {
		return respSig(r), viol(sig(s.propID, wk, o.kind, cond, field, "exp="+expSig(e), "got="+respSig(r)),
			"%s: expected %s, got %s %s", o.String(), expSig(e), r.Short(), extra)
	}
	switch o.kind {
	case "create":
		r := s.w.Do(drv.Req{Method: "PUT", Path: "/" + o.b})
		e := s.m.CreateBucket(o.b)
		if !matchExp(r, e) {
			return bad("status", r, e, "")
		}
		return respSig(r), nil
	case "delbucket":
		r := s.w.Do(drv.Req{Method: "DELETE", Path: "/" + o.b})
		e := s.m.DeleteBucket(o.b)
		if !matchExp(r, e) {
			return bad("status", r, e, "")
		}
		return respSig(r), nil
	case "put":
		var hdr [][2]string
		var meta map[string]string
		if o.meta {
			hdr = drv.H(c02MetaKey, c02MetaVal)
			meta = map[string]string{c02MetaKey: c02MetaVal}
		}
		r := s.w.Do(drv.Req{Method: "PUT", Path: "/" + o.b + "/" + o.k, Body: []byte(o.body), Header: hdr})
		if s.fsRefuses(o.b, o.k) {
			if r.Panic != "" || r.Status < 400 || r.Status >= 500 {
				return bad("fs-clash", r, model.Exp{Status: 400, Code: "a client error"}, "(the key clashes with the directory layout of an existing key)")
			}
			return respSig(r), nil // refused: the state predicates check that nothing changed
		}
		e := s.m.Put(o.b, o.k, []byte(o.body), meta)
		if !matchExp(r, e) {
			return bad("status", r, e, "")
		}
		if e.Status == 200 && r.Header.Get("ETag") != drv.ETagOf([]byte(o.body)) {
			return bad("etag", r, e, "ETag "+r.Header.Get("ETag"))
		}
		return respSig(r), nil
	case "delete":
		q := ""
		if o.nullVer {
			q = "versionId=null"
			if o.emptyVer {
				q = "versionId="
			}
		}
		r := s.w.Do(drv.Req{Method: "DELETE", Path: "/" + o.b + "/" + o.k, Query: q})
		e := s.m.Delete(o.b, o.k)
		if !matchExp(r, e) {
			return bad("status", r, e, "")
		}
		return respSig(r), nil
	case "multi":
		mb := multiDeleteBody(o.keys, o.quiet)
		if o.nullVer {
			mb = []byte(strings.ReplaceAll(string(mb), "</Key>", "</Key><VersionId>null</VersionId>"))
		}
		if o.bogusVer {
			mb = []byte(strings.ReplaceAll(string(mb), "</Key>", "</Key><VersionId>3HL4kqtJvjVBH40Nrjfkd</VersionId>"))
			r := s.w.Do(drv.Req{Method: "POST", Path: "/" + o.b, Query: "delete", Body: mb})
			// whatever the answer says (the statement leaves it open): nothing is deleted, which the
			// reads evaluated in the next state decide; a missing bucket is still a missing bucket
			e := s.m.MultiDelete(o.b, nil) // (as far as the bucket goes it is a multi-delete like any other)
			if !matchExp(r, e) {
				return bad("status", r, e, "")
			}
			return respSig(r), nil
		}
		r := s.w.Do(drv.Req{Method: "POST", Path: "/" + o.b, Query: "delete", Body: mb})
		e := s.m.MultiDelete(o.b, o.keys)
		if !matchExp(r, e) {
			return bad("status", r, e, "")
		}
		if e.Status == 200 {
			n := r.XML()
			if n == nil || n.Name != "DeleteResult" {
				return bad("document", r, e, "not a DeleteResult")
			}
			if len(n.All("Error")) != 0 {
				return bad("error-entries", r, e, "unexpected Error entries")
			}
			var del []string
			for _, d := range n.All("Deleted") {
				del = append(del, d.Child("Key").TextRaw())
			}
			want := append([]string{}, o.keys...)
			if o.quiet {
				want = nil
			}
			sort.Strings(del)
			sort.Strings(want)
			if strings.Join(del, "\x00") != strings.Join(want, "\x00") {
				return bad("deleted-list", r, e, fmt.Sprintf("Deleted=%v want %v", del, want))
			}
		}
		return respSig(r), nil
	case "copy", "copymeta":
		hdr := drv.H("X-Amz-Copy-Source", "/"+o.b+"/"+o.k)
		if o.kind == "copymeta" {
			hdr = append(hdr, [2]string{c02MetaKey, "copy-value"}, [2]string{"x-amz-metadata-directive", "REPLACE"})
		}
		r := s.w.Do(drv.Req{Method: "PUT", Path: "/" + o.b2 + "/" + o.k2, Header: hdr})
		if s.m.Has(o.b) && s.m.Get(o.b, o.k) != nil && s.m.Get(o.b2, o.k2) == nil && s.fsRefuses(o.b2, o.k2) {
			if r.Panic != "" || r.Status < 400 || r.Status >= 500 {
				return bad("fs-clash", r, model.Exp{Status: 400, Code: "a client error"}, "(the destination clashes with the directory layout of an existing key)")
			}
			return respSig(r), nil
		}
		e, src := s.m.Copy(o.b, o.k, o.b2, o.k2)
		if o.kind == "copymeta" && e.Status == 200 {
			s.m.Get(o.b2, o.k2).Meta[c02MetaKey] = "copy-value"
		}
		if !matchExp(r, e) {
			return bad("status", r, e, "")
		}
		if e.Status == 200 {
			n := r.XML()
			if n == nil || n.Name != "CopyObjectResult" {
				return bad("document", r, e, "not a CopyObjectResult")
			}
			if got := n.T("ETag"); got != drv.ETagOf(src.Body) {
				return bad("etag", r, e, "CopyObjectResult ETag "+got)
			}
		}
		return respSig(r), nil
	}
	panic("c02: unknown op")
}

// Check evaluates all read-only operations in the current state.
func (s *c02Sys) Check() ([]*engine.Violation, int64) {
	var vs []*engine.Violation
	var evals int64
	wk := string(s.w.Cfg.Kind)
	add := func(opk, cond, field, msg string) {
		vs = append(vs, viol(sig(s.propID, wk, "after:"+s.last, opk, cond, field), "%s", msg))
	}
	// read-only requests must not create buckets in the model under auto-bucket
	// in a way that differs from the implementation: evaluate against a copy of
	// the bucket set and apply the same auto-creation to the model.
	inOrder, lr := s.w.ListBucketsInOrder()
	names := append([]string{}, inOrder...)
	sort.Strings(names)
	evals++
	want := s.m.BucketNames()
	if lr.Status != 200 || strings.Join(names, ",") != strings.Join(want, ",") {
		add("list-buckets", "-", "names", fmt.Sprintf("ListBuckets %s = %v, want %v", lr.Short(), names, want))
	} else if strings.Join(inOrder, ",") != strings.Join(names, ",") {
		// S3 lists buckets by name, and so do the backends that keep them sorted: the
		// answer to the same request must not depend on the backend (or on map order)
		vs = append(vs, viol(sig(s.propID, wk, "after:any", "list-buckets", "-", "order"), "ListBuckets answers %v, want them in the order %v", inOrder, names))
	}
	for _, b := range s.u.buckets {
		exists := s.m.Has(b)
		// HEAD bucket
		r := s.w.Do(drv.Req{Method: "HEAD", Path: "/" + b})
		evals++
		had := exists
		exists = s.m.Need(b)
		e := model.Exp{Status: 200}
		if !exists {
			e = model.Exp{Status: 404, Code: "NoSuchBucket"}
		}
		if !matchExpHead(r, e) {
			add("head-bucket", existsStr(had), "status", fmt.Sprintf("HEAD /%s: expected %s got %s", b, expSig(e), r.Short()))
		}
		lp := s.w.List(b, "")
		evals++
		if !exists {
			if lp.Status != 404 || lp.Code != "NoSuchBucket" {
				add("list", "absent", "status", fmt.Sprintf("GET /%s: expected 404 NoSuchBucket got %d %s %s", b, lp.Status, lp.Code, panicOf(lp.Panic)))
			}
		} else {
			keys := s.m.Keys(b)
			var got []string
			for _, en := range lp.Entries {
				got = append(got, en.Key)
			}
			if lp.Status != 200 || lp.Panic != "" {
				add("list", "existing", "status", fmt.Sprintf("GET /%s: expected 200 got %d %s %s", b, lp.Status, lp.Code, panicOf(lp.Panic)))
			} else if strings.Join(got, "\x00") != strings.Join(keys, "\x00") {
				f := "keys"
				if sameSet(got, keys) {
					f = "order"
				}
				add("list", "existing", f, fmt.Sprintf("GET /%s lists %q, want %q", b, got, keys))
			} else {
				for _, en := range lp.Entries {
					o := s.m.Get(b, en.Key)
					if en.ETag != drv.ETagOf(o.Body) || en.Size != int64(len(o.Body)) {
						add("list", "existing", "entry", fmt.Sprintf("GET /%s entry %q etag=%s size=%d, want %s/%d", b, en.Key, en.ETag, en.Size, drv.ETagOf(o.Body), len(o.Body)))
					}
				}
			}
		}
		for _, k := range s.u.keys {
			for _, head := range []bool{false, true} {
				var v drv.ObjView
				opk := "get"
				if head {
					v = s.w.Head(b, k)
					opk = "head"
				} else {
					v = s.w.Get(b, k)
				}
				evals++
				if !exists {
					if v.Status != 404 || (!head && v.Code != "NoSuchBucket") || v.Panic != "" {
						add(opk, "absent-bucket", "status", fmt.Sprintf("%s /%s/%s: expected 404 NoSuchBucket got %s", opk, b, k, v.String()))
					}
					continue
				}
				o := s.m.Get(b, k)
				if f, msg := checkObjView(v, o, head); f != "" {
					add(opk, existsStr(o != nil), f, fmt.Sprintf("%s /%s/%s: %s", opk, b, k, msg))
				}
			}
		}
	}
	return vs, evals
}

func panicOf(p string) string {
	if p == "" {
		return ""
	}
	return "PANIC " + firstLine(p)
}

func existsStr(b bool) string {
	if b {
		return "existing"
	}
	return "absent"
}

func sameSet(a, b []string) bool {
	if len(a) != len(b) {
		return false
	}
	x := append([]string{}, a...)
	y := append([]string{}, b...)
	sort.Strings(x)
	sort.Strings(y)
	return strings.Join(x, "\x00") == strings.Join(y, "\x00")
}

func c02Configs(c *engine.Ctx) []drv.Config {
	var cfgs []drv.Config
	kinds := drv.MemFsKinds
	if !quick(c) {
		kinds = drv.AllKinds
	} else {
		kinds = append(append([]drv.Kind{}, kinds...), drv.MultiDir)
	}
	for _, k := range kinds {
		cfgs = append(cfgs, drv.Config{Kind: k})
		if !k.IsSingle() {
			cfgs = append(cfgs, drv.Config{Kind: k, AutoBucket: true})
		}
	}
	return cfgs
}

func c02UniverseFor(c *engine.Ctx, k drv.Kind) (*c02Universe, int) {
	u := &c02Universe{buckets: []string{"aaa", "aaa-b"}, keys: []string{"k", "d/x"}, bodies: []string{"A", "BB"}}
	depth := 4
	if !quick(c) {
		depth = 0 // the 2-bucket/2-key universe is run to closure
	}
	return u, depth
}

func runC02(c *engine.Ctx) {
	c.Rule = "state = canonical API snapshot (all buckets, listings, bodies, ETags, metadata) + raw storage dump; transition = one mutating request (create/delete bucket, put, delete, multi-delete, copy) checked against the A.1 store model; every read (GET/HEAD per key, list, head-bucket, list-buckets) is evaluated in every new state; distinct_nontrivial = distinct canonical states reached"
	c.Assumptions = append(c.Assumptions, "handler driven directly via ServeHTTP (no net/http transport)", "reference model verifmc/model.Store is the trusted base", "error messages/Resource fields not compared, only status and Code")
	cfgs := c02Configs(c)
	c.SpecBudget = c.Budget() / time.Duration(len(cfgs))
	for _, cfg := range cfgs {
		cfg := cfg
		u, depth := c02UniverseFor(c, cfg.Kind)
		ops := c02BuildOps(u)
		name := "C02/" + worldName(cfg)
		engine.RunSeq(c, engine.SeqSpec{Name: name, World: worldName(cfg), MaxDepth: depth,
			New: func() (engine.Sys, error) { return newC02Sys(cfg, u, ops) }})
		c.Bounds[name] = map[string]interface{}{"buckets": u.buckets, "keys": u.keys, "bodies": u.bodies, "ops": len(ops), "max_depth": depth}
		if !cfg.AutoBucket {
			// nested directories: keys two and three levels deep that share ancestors, and one that is a directory of others
			un := &c02Universe{buckets: []string{"aaa"}, keys: []string{"d/s/z", "d/y", "d/s/t/w", "d/s"}, bodies: []string{"A"},
				opKinds: map[string]bool{"create": true, "put": true, "delete": true, "multi": true, "copy": true}}
			opsn := c02BuildOps(un)
			namen := "C02/" + worldName(cfg) + "/nested"
			dn := 5
			if !quick(c) {
				dn = 7
			}
			engine.RunSeq(c, engine.SeqSpec{Name: namen, World: worldName(cfg), MaxDepth: dn,
				New: func() (engine.Sys, error) { return newC02Sys(cfg, un, opsn) }})
			c.Bounds[namen] = map[string]interface{}{"buckets": un.buckets, "keys": un.keys, "bodies": un.bodies, "ops": len(opsn), "max_depth": dn}
		}
		if !quick(c) && !cfg.AutoBucket {
			// larger universe (third key sharing the directory, empty body), bounded depth
			u3 := &c02Universe{buckets: []string{"aaa", "aaa-b"}, keys: []string{"k", "d/x", "d/y"}, bodies: []string{"A", "BB", ""}}
			ops3 := c02BuildOps(u3)
			name3 := "C02/" + worldName(cfg) + "/3keys"
			engine.RunSeq(c, engine.SeqSpec{Name: name3, World: worldName(cfg), MaxDepth: 5,
				New: func() (engine.Sys, error) { return newC02Sys(cfg, u3, ops3) }})
			c.Bounds[name3] = map[string]interface{}{"buckets": u3.buckets, "keys": u3.keys, "bodies": u3.bodies, "ops": len(ops3), "max_depth": 5}
		}
	}
	if quick(c) {
		// the single-bucket backend on a real directory has clean-up code of its own
		// (errors of a real file system: ENOTDIR, ENAMETOOLONG): the nested universe there too
		cfg := drv.Config{Kind: drv.SingleDir}
		un := &c02Universe{buckets: []string{"aaa"}, keys: []string{"d/s/z", "d/y", "d/s/t/w", "d/s"}, bodies: []string{"A"},
			opKinds: map[string]bool{"put": true, "delete": true, "multi": true, "copy": true}}
		opsn := c02BuildOps(un)
		namen := "C02/" + worldName(cfg) + "/nested"
		engine.RunSeq(c, engine.SeqSpec{Name: namen, World: worldName(cfg), MaxDepth: 4,
			New: func() (engine.Sys, error) { return newC02Sys(cfg, un, opsn) }})
		c.Bounds[namen] = map[string]interface{}{"buckets": un.buckets, "keys": un.keys, "bodies": un.bodies, "ops": len(opsn), "max_depth": 4}
	}
}

func init() { Registry["C02"] = runC02 }
