package props

import (
	"bytes"
	"fmt"
	"sort"
	"strconv"
	"strings"

	"verifmc/drv"
	"verifmc/engine"
	"verifmc/model"
)

// C05 (versioning never loses history) and C13 (version listings) share one
// search over put / delete / delete-version / multi-delete / set-versioning
// histories on the memory backend.

type verObj struct {
	k   string
	idx int // entry index whose id is used; -1 = plain (no version id)
}

type verOp struct {
	kind   string // put|delete|delver|multi|setver
	k      string
	body   string
	idx    int // delver: entry index, -1 = unknown id
	objs   []verObj
	enable bool
}

func (o verOp) String() string {
	switch o.kind {
	case "put":
		return fmt.Sprintf("put %s %q", o.k, o.body)
	case "delete":
		return "delete " + o.k
	case "delver":
		if o.idx < 0 {
			return "delete-version " + o.k + "@unknown"
		}
		return fmt.Sprintf("delete-version %s@#%d", o.k, o.idx)
	case "multi":
		var p []string
		for _, ob := range o.objs {
			if ob.idx < 0 {
				p = append(p, ob.k)
			} else {
				p = append(p, fmt.Sprintf("%s@#%d", ob.k, ob.idx))
			}
		}
		return "multi-delete [" + strings.Join(p, " ") + "]"
	case "setver":
		if o.enable {
			return "set-versioning Enabled"
		}
		return "set-versioning Suspended"
	case "setver-mfa":
		if o.enable {
			return "set-versioning Enabled+MfaDelete"
		}
		return "set-versioning Suspended+MfaDelete"
	case "setver-nostatus":
		if o.enable {
			return "set-versioning <MfaDelete>Disabled</MfaDelete> only"
		}
		return "set-versioning <VersioningConfiguration/>"
	case "copy":
		return "copy " + o.k + " -> " + o.body
	}
	return o.kind
}

type verSys struct {
	w       *drv.World
	m       *model.VModel
	prop    string
	keys    []string
	bodies  []string
	maxEnt  int
	bucket  string
	lastOp  string
	unknown string
	// the status history is hidden state of the backend (what a version "is" may be
	// decided when the status changes): with trackStatus the number of status changes
	// is part of the state key, so that histories which differ only in it are explored
	trackStatus bool
	changes     int
}

func newVerSys(prop string, keys, bodies []string, maxEnt int) (*verSys, error) {
	w, err := drv.NewWorld(drv.Config{Kind: drv.Mem})
	if err != nil {
		return nil, err
	}
	if r := w.Do(drv.Req{Method: "PUT", Path: "/aaa"}); r.Status != 200 {
		return nil, fmt.Errorf("setup: %s", r.Short())
	}
	return &verSys{w: w, m: model.NewVModel(), prop: prop, keys: keys, bodies: bodies, maxEnt: maxEnt, bucket: "aaa", unknown: "3/000000UNKNOWNVERSIONID"}, nil
}

func (s *verSys) Close() { s.w.Close() }
func (s *verSys) Key() string {
	extra := ""
	if s.trackStatus {
		extra = fmt.Sprintf(" status-changes=%d", min(s.changes, 4))
	}
	return drv.KeyOf(s.w.Snapshot(drv.SnapOpts{Versions: true}) + "MODEL " + s.renderModel() + extra)
}

func (s *verSys) Ops() []engine.Op {
	var ops []engine.Op
	for _, k := range s.keys {
		if len(s.m.Keys[k]) < s.maxEnt {
			for _, b := range s.bodies {
				ops = append(ops, verOp{kind: "put", k: k, body: b})
			}
		}
	}
	for _, k := range s.keys {
		if len(s.m.Keys[k]) < s.maxEnt || s.m.Status != "Enabled" {
			ops = append(ops, verOp{kind: "delete", k: k})
		}
	}
	// a server-side copy is an upload too: onto itself (new version of the same key) and onto the other key
	for _, k := range s.keys {
		if l := s.m.Latest(k); l != nil && !l.Marker {
			dst := s.keys[len(s.keys)-1]
			if len(s.m.Keys[dst]) < s.maxEnt {
				ops = append(ops, verOp{kind: "copy", k: k, body: dst})
			}
			break
		}
	}
	ops = append(ops, verOp{kind: "setver", enable: true}, verOp{kind: "setver", enable: false})
	// a configuration request the server refuses (MFA delete is not implemented) asking for the other status
	ops = append(ops, verOp{kind: "setver-mfa", enable: s.m.Status != "Enabled"})
	ops = append(ops, verOp{kind: "setver-nostatus"}, verOp{kind: "setver-nostatus", enable: true})
	for _, k := range s.keys {
		for i, e := range s.m.Keys[k] {
			if e.ID != "" {
				ops = append(ops, verOp{kind: "delver", k: k, idx: i})
			}
		}
	}
	ops = append(ops, verOp{kind: "delver", k: s.keys[0], idx: -1})
	// multi-delete: key only; key+newest version; mixed over two keys
	for _, k := range s.keys {
		ops = append(ops, verOp{kind: "multi", objs: []verObj{{k, -1}}})
		if es := s.m.Keys[k]; len(es) > 0 && es[len(es)-1].ID != "" {
			ops = append(ops, verOp{kind: "multi", objs: []verObj{{k, len(es) - 1}}})
		}
	}
	if len(s.keys) > 1 {
		k0, k1 := s.keys[0], s.keys[1]
		if es := s.m.Keys[k1]; len(es) > 0 && es[0].ID != "" {
			ops = append(ops, verOp{kind: "multi", objs: []verObj{{k0, -1}, {k1, 0}}})
			ops = append(ops, verOp{kind: "multi", objs: []verObj{{k1, 0}, {k0, -1}}})
		}
		if es := s.m.Keys[k0]; len(es) > 1 && es[len(es)-2].ID != "" {
			ops = append(ops, verOp{kind: "multi", objs: []verObj{{k0, len(es) - 2}, {k1, -1}}})
		}
	}
	return ops
}

func (s *verSys) verBad(op, field, cond, format string, a ...interface{}) *engine.Violation {
	st := s.m.Status
	if st == "" {
		st = "None"
	}
	return viol(sig("C05", "mem", op+"@"+st, field, cond), format, a...)
}

// observe fetches the unpaginated version listing grouped by key.
func (s *verSys) observe() (map[string][]drv.VerEntry, *drv.VerPage) {
	vp := s.w.ListVersions(s.bucket, "")
	if vp.Status != 200 || vp.Panic != "" {
		return nil, &vp
	}
	out := map[string][]drv.VerEntry{}
	for _, e := range vp.Entries {
		out[e.Key] = append(out[e.Key], e)
	}
	return out, &vp
}

func entryETag(e model.VEntry) string {
	if e.Marker {
		return ""
	}
	return drv.ETagOf(e.Body)
}

// matchEntries tries to match a candidate entry list against the observed
// listing of one key. On success it returns the candidate with ids filled in.
func matchEntries(cand []model.VEntry, obs []drv.VerEntry, taken map[string]bool) ([]model.VEntry, bool) {
	if len(cand) != len(obs) {
		return nil, false
	}
	used := make([]bool, len(obs))
	out := append([]model.VEntry{}, cand...)
	// entries with known ids first
	for i, e := range out {
		if e.ID == "" {
			continue
		}
		found := false
		for j, o := range obs {
			if !used[j] && o.ID == e.ID && o.Marker == e.Marker && o.ETag == entryETag(e) {
				used[j], found = true, true
				break
			}
		}
		if !found {
			return nil, false
		}
		_ = i
	}
	for i, e := range out {
		if e.ID != "" {
			continue
		}
		found := false
		for j, o := range obs {
			if !used[j] && o.Marker == e.Marker && o.ETag == entryETag(e) {
				if taken[o.ID] {
					continue // that id is already known as another entry of the key
				}
				used[j], found = true, true
				if o.ID != "null" && o.ID != "" {
					out[i].ID = o.ID
				}
				break
			}
		}
		if !found {
			return nil, false
		}
	}
	return out, true
}

// resolve picks the allowed successor of key k that the implementation took.
func (s *verSys) resolve(op string, k string, pre []model.VEntry, cands [][]model.VEntry, newID string) *engine.Violation {
	obsAll, vp := s.observe()
	if obsAll == nil {
		return s.verBad(op, "list-versions", "unavailable", "%s: cannot list versions afterwards: %d %s %s", op, vp.Status, vp.Code, panicOf(vp.Panic))
	}
	obs := obsAll[k]
	for _, c := range cands {
		cc := append([]model.VEntry{}, c...)
		if newID != "" && len(cc) > 0 && cc[len(cc)-1].ID == "" {
			cc[len(cc)-1].ID = newID
		}
		// ids the model already attributes to entries: an entry whose id is still unknown
		// (a fresh null entry) cannot be one of them
		taken := map[string]bool{}
		for _, e := range pre {
			if e.ID != "" {
				taken[e.ID] = true
			}
		}
		if filled, ok := matchEntries(cc, obs, taken); ok {
			// the successor must also agree with what an unqualified read resolves to
			// (entries with equal content are otherwise indistinguishable in the listing)
			g := s.w.Get(s.bucket, k)
			if len(filled) == 0 || filled[len(filled)-1].Marker {
				if g.Status != 404 {
					continue
				}
			} else if g.Status != 200 || string(g.Body) != string(filled[len(filled)-1].Body) {
				continue
			}
			s.m.Set(k, filled)
			for _, e := range filled {
				if e.ID != "" {
					s.m.AllIDs[e.ID] = true
				}
			}
			return nil
		}
	}
	// classify
	cond := "no-allowed-successor"
	for _, e := range pre {
		if e.Null || e.ID == "" {
			continue
		}
		found := false
		for _, o := range obs {
			if o.ID == e.ID && o.ETag == entryETag(e) {
				found = true
			}
		}
		if !found {
			cond = "lost-enabled-era-version"
			if len(pre) > 0 && pre[len(pre)-1].ID == e.ID {
				cond = "lost-enabled-era-version@it-was-current"
			}
			break
		}
	}
	var ob []string
	for _, o := range obs {
		ob = append(ob, fmt.Sprintf("{marker=%v etag=%s latest=%v}", o.Marker, o.ETag, o.IsLatest))
	}
	return s.verBad(op, "post-state", cond, "%s %s: version stack of %q afterwards is %v; model before: %s; no allowed successor matches", op, k, k, ob, renderEntries(pre))
}

func renderEntries(es []model.VEntry) string {
	var p []string
	for _, e := range es {
		t := "obj"
		if e.Marker {
			t = "marker"
		}
		era := "ver"
		if e.Null {
			era = "null"
		}
		p = append(p, fmt.Sprintf("{%s %s %q}", t, era, e.Body))
	}
	return "[" + strings.Join(p, " ") + "]"
}

// syncIDs learns ids of entries that were created without one being returned.
func (s *verSys) syncIDs() {
	obsAll, _ := s.observe()
	if obsAll == nil {
		return
	}
	for k, es := range s.m.Keys {
		if filled, ok := matchEntries(es, obsAll[k], nil); ok {
			s.m.Keys[k] = filled
		}
	}
}

func (s *verSys) Apply(op engine.Op) (string, *engine.Violation) {
	obs, v := s.apply(op)
	if v != nil && s.prop != "C05" {
		v.Sig = "FOREIGN" // step divergences belong to C05 (DESIGN B.2)
	}
	return obs, v
}

func (s *verSys) apply(op engine.Op) (string, *engine.Violation) {
	o := op.(verOp)
	s.lastOp = o.kind
	switch o.kind {
	case "setver":
		st := "Suspended"
		if o.enable {
			st = "Enabled"
		}
		r := s.w.Do(drv.Req{Method: "PUT", Path: "/" + s.bucket, Query: "versioning", Body: []byte("<VersioningConfiguration><Status>" + st + "</Status></VersioningConfiguration>")})
		if r.Status != 200 || r.Panic != "" {
			return respSig(r), s.verBad("setver", "status", "-", "set-versioning %s answered %s", st, r.Short())
		}
		if s.m.Status != st {
			s.changes++
		}
		s.m.SetVersioning(o.enable)
		gv := s.w.Do(drv.Req{Method: "GET", Path: "/" + s.bucket, Query: "versioning"})
		got := ""
		if n := gv.XML(); n != nil {
			got = n.T("Status")
		}
		if got != s.m.Status {
			return respSig(r), s.verBad("setver", "reported-status", "-", "GET ?versioning reports %q, want %q", got, s.m.Status)
		}
		s.syncIDs()
		return respSig(r), nil
	case "setver-nostatus":
		// a configuration that names no status asks for no change of status
		body := "<VersioningConfiguration/>"
		if o.enable {
			body = "<VersioningConfiguration><MfaDelete>Disabled</MfaDelete></VersioningConfiguration>"
		}
		r := s.w.Do(drv.Req{Method: "PUT", Path: "/" + s.bucket, Query: "versioning", Body: []byte(body)})
		if r.Panic != "" || r.Status >= 500 {
			return respSig(r), s.verBad("setver-nostatus", "status", "-", "answered %s", r.Short())
		}
		gv := s.w.Do(drv.Req{Method: "GET", Path: "/" + s.bucket, Query: "versioning"})
		got := ""
		if n := gv.XML(); n != nil {
			got = n.T("Status")
		}
		if got != s.m.Status {
			return respSig(r), s.verBad("setver-nostatus", "status-changed", "-", "a versioning configuration without a Status (answered %s) changed the status from %q to %q", r.Short(), s.m.Status, got)
		}
		return respSig(r), nil
	case "setver-mfa":
		st := "Suspended"
		if o.enable {
			st = "Enabled"
		}
		r := s.w.Do(drv.Req{Method: "PUT", Path: "/" + s.bucket, Query: "versioning", Body: []byte("<VersioningConfiguration><Status>" + st + "</Status><MfaDelete>Enabled</MfaDelete></VersioningConfiguration>")})
		if r.Panic != "" {
			return respSig(r), s.verBad("setver-mfa", "panic", "-", "%s", firstLine(r.Panic))
		}
		if r.Status == 200 {
			s.m.SetVersioning(o.enable) // accepted: it applies like any other
		}
		gv := s.w.Do(drv.Req{Method: "GET", Path: "/" + s.bucket, Query: "versioning"})
		got := ""
		if n := gv.XML(); n != nil {
			got = n.T("Status")
		}
		if got != s.m.Status {
			return respSig(r), s.verBad("setver-mfa", "refused-request-took-effect", "-", "the request was answered %s, yet GET ?versioning reports %q (before: %q)", r.Short(), got, s.m.Status)
		}
		s.syncIDs()
		return respSig(r), nil
	case "copy":
		src, dst := o.k, o.body
		s.syncIDs() // ids the listing shows for versions written before versioning was enabled
		srcE := s.m.Latest(src)
		pre := s.m.Keys[dst]
		esc := strings.NewReplacer("%", "%25", "+", "%2B", " ", "%20").Replace(src)
		r := s.w.Do(drv.Req{Method: "PUT", Path: "/" + s.bucket + "/" + dst, Header: drv.H("X-Amz-Copy-Source", "/"+s.bucket+"/"+esc, "x-amz-meta-a", "m-"+string(srcE.Body), "x-amz-metadata-directive", "REPLACE")})
		if r.Status != 200 || r.Panic != "" {
			return respSig(r), s.verBad("copy", "status", "-", "copy %s -> %s answered %s", src, dst, r.Short())
		}
		id := r.Header.Get("x-amz-version-id")
		if s.m.Status == "Enabled" {
			// the copy creates a version of the destination: if an id is reported it is that version's
			if id != "" && s.m.AllIDs[id] {
				return respSig(r), s.verBad("copy", "version-id", "not-fresh", "copy %s -> %s reported version id %s, which belongs to an earlier upload", src, dst, id)
			}
		} else {
			id = ""
		}
		cands := s.m.PutCandidates(dst, srcE.Body, map[string]string{"x-amz-meta-a": "m-" + string(srcE.Body)})
		if v := s.resolve("copy", dst, pre, cands, id); v != nil {
			return respSig(r), v
		}
		return respSig(r) + " " + strconv.FormatBool(id != ""), nil
	case "put":
		pre := s.m.Keys[o.k]
		r := s.w.Do(drv.Req{Method: "PUT", Path: "/" + s.bucket + "/" + o.k, Body: []byte(o.body), Header: drv.H("x-amz-meta-a", "m-"+o.body)})
		if r.Status != 200 || r.Panic != "" {
			return respSig(r), s.verBad("put", "status", "-", "put %s answered %s", o.k, r.Short())
		}
		id := r.Header.Get("x-amz-version-id")
		if s.m.Status == "Enabled" {
			if id == "" {
				return respSig(r), s.verBad("put", "version-id", "missing", "put %s while Enabled returned no x-amz-version-id", o.k)
			}
			if s.m.AllIDs[id] {
				return respSig(r), s.verBad("put", "version-id", "not-fresh", "put %s returned version id %s that was handed out before", o.k, id)
			}
		} else {
			id = ""
		}
		cands := s.m.PutCandidates(o.k, []byte(o.body), map[string]string{"x-amz-meta-a": "m-" + o.body})
		if v := s.resolve("put", o.k, pre, cands, id); v != nil {
			return respSig(r), v
		}
		return respSig(r) + " " + strconv.FormatBool(id != ""), nil
	case "delete":
		pre := s.m.Keys[o.k]
		r := s.w.Do(drv.Req{Method: "DELETE", Path: "/" + s.bucket + "/" + o.k})
		if r.Status != 204 || r.Panic != "" {
			return respSig(r), s.verBad("delete", "status", "-", "delete %s answered %s", o.k, r.Short())
		}
		id := ""
		if s.m.Status == "Enabled" && len(pre) > 0 {
			id = r.Header.Get("x-amz-version-id")
			if r.Header.Get("x-amz-delete-marker") != "true" || id == "" {
				return respSig(r), s.verBad("delete", "delete-marker-headers", "-", "delete %s while Enabled: x-amz-delete-marker=%q x-amz-version-id=%q", o.k, r.Header.Get("x-amz-delete-marker"), id)
			}
			if s.m.AllIDs[id] {
				return respSig(r), s.verBad("delete", "version-id", "not-fresh", "delete marker id %s was handed out before", id)
			}
		}
		cands := s.m.DeleteCandidates(o.k)
		if s.m.Status == "Enabled" && len(pre) == 0 {
			// deleting a key that never existed: a marker or nothing are both fine
			cands = append(cands, nil)
			id = r.Header.Get("x-amz-version-id")
		}
		if v := s.resolve("delete", o.k, pre, cands, id); v != nil {
			return respSig(r), v
		}
		return respSig(r), nil
	case "delver":
		id := s.unknown
		if o.idx >= 0 {
			id = s.m.Keys[o.k][o.idx].ID
		}
		pre := s.m.Keys[o.k]
		r := s.w.Do(drv.Req{Method: "DELETE", Path: "/" + s.bucket + "/" + o.k, Query: drv.Q("versionId", id)})
		unknownOK := o.idx < 0 && r.Panic == "" && r.Status == 404 // an id that never existed: 204 or 404 are both fine
		if (r.Status != 204 && !unknownOK) || r.Panic != "" {
			return respSig(r), s.verBad("delver", "status", "-", "delete-version %s answered %s", o.k, r.Short())
		}
		s.m.DeleteVersion(o.k, id)
		if v := s.resolve("delver", o.k, pre, [][]model.VEntry{s.m.Keys[o.k]}, ""); v != nil {
			return respSig(r), v
		}
		return respSig(r), nil
	case "multi":
		var sb strings.Builder
		sb.WriteString("<Delete>")
		for _, ob := range o.objs {
			sb.WriteString("<Object><Key>" + xmlEsc(ob.k) + "</Key>")
			if ob.idx >= 0 {
				sb.WriteString("<VersionId>" + xmlEsc(s.m.Keys[ob.k][ob.idx].ID) + "</VersionId>")
			}
			sb.WriteString("</Object>")
		}
		sb.WriteString("</Delete>")
		pres := map[string][]model.VEntry{}
		ids := map[string]string{}
		for _, ob := range o.objs {
			pres[ob.k] = s.m.Keys[ob.k]
			if ob.idx >= 0 {
				ids[ob.k] = s.m.Keys[ob.k][ob.idx].ID
			}
		}
		r := s.w.Do(drv.Req{Method: "POST", Path: "/" + s.bucket, Query: "delete", Body: []byte(sb.String())})
		if r.Status != 200 || r.Panic != "" {
			return respSig(r), s.verBad("multi", "status", "-", "%s answered %s", o, r.Short())
		}
		n := r.XML()
		if n == nil || len(n.All("Error")) > 0 || len(n.All("Deleted")) != len(o.objs) {
			return respSig(r), s.verBad("multi", "result", "-", "%s: unexpected DeleteResult %s", o, clip(string(r.Body), 300))
		}
		for _, ob := range o.objs {
			if ob.idx >= 0 {
				s.m.DeleteVersion(ob.k, ids[ob.k])
				if v := s.resolve("multi-version", ob.k, pres[ob.k], [][]model.VEntry{s.m.Keys[ob.k]}, ""); v != nil {
					return respSig(r), v
				}
			} else {
				cands := s.m.DeleteCandidates(ob.k)
				if s.m.Status == "Enabled" && len(pres[ob.k]) == 0 {
					cands = append(cands, nil)
				}
				if v := s.resolve("multi-plain", ob.k, pres[ob.k], cands, ""); v != nil {
					return respSig(r), v
				}
			}
		}
		return respSig(r), nil
	}
	panic("c05: unknown op")
}

func clip(s string, n int) string {
	if len(s) > n {
		return s[:n] + "…"
	}
	return s
}

func (s *verSys) Check() ([]*engine.Violation, int64) {
	if s.prop == "C13" {
		return s.checkVerListing()
	}
	var vs []*engine.Violation
	var evals int64
	add := func(op, field, cond, format string, a ...interface{}) {
		vs = append(vs, s.verBad("after:"+s.lastOp+"/"+op, field, cond, format, a...))
	}
	for _, k := range s.keys {
		latest := s.m.Latest(k)
		var want *model.Obj
		cond := "none-remaining"
		if latest != nil && !latest.Marker {
			want = &model.Obj{Body: latest.Body, Meta: latest.Meta}
			cond = "object"
		} else if latest != nil {
			cond = "delete-marker"
		}
		for _, head := range []bool{false, true} {
			var v drv.ObjView
			opn := "get"
			if head {
				v = s.w.Head(s.bucket, k)
				opn = "head"
			} else {
				v = s.w.Get(s.bucket, k)
			}
			evals++
			if f, msg := checkObjView(v, want, head); f != "" {
				add(opn, f, "latest="+cond, "%s /%s/%s (model stack %s): %s", opn, s.bucket, k, renderEntries(s.m.Keys[k]), msg)
			}
		}
		for i, e := range s.m.Keys[k] {
			if e.ID == "" {
				continue
			}
			pos := "archived"
			if i == len(s.m.Keys[k])-1 {
				pos = "current"
			}
			for _, head := range []bool{false, true} {
				var v drv.ObjView
				opn := "get-version"
				if head {
					v = s.w.HeadVersion(s.bucket, k, e.ID)
					opn = "head-version"
				} else {
					v = s.w.GetVersion(s.bucket, k, e.ID)
				}
				evals++
				if e.Marker {
					if v.Panic != "" || (v.Status != 404 && v.Status != 405) {
						add(opn, "status", "delete-marker,"+pos, "%s of delete marker %s#%d: %s", opn, k, i, v.String())
					}
					continue
				}
				if f, msg := checkObjView(v, &model.Obj{Body: e.Body, Meta: e.Meta}, head); f != "" {
					add(opn, f, "object,"+pos, "%s /%s/%s?versionId=#%d (model stack %s): %s", opn, s.bucket, k, i, renderEntries(s.m.Keys[k]), msg)
				} else if !head && !bytes.Equal(v.Body, e.Body) {
					add(opn, "body", "object,"+pos, "wrong body")
				}
			}
		}
	}
	var dels []string
	for id := range s.m.Deleted {
		dels = append(dels, id)
	}
	sort.Strings(dels)
	for _, id := range dels {
		for _, k := range s.keys {
			v := s.w.GetVersion(s.bucket, k, id)
			evals++
			if v.Panic != "" || v.Status != 404 || (v.Code != "NoSuchVersion" && v.Code != "NoSuchKey") {
				add("get-version", "status", "deleted-version", "GET %s?versionId=<deleted id>: %s, want 404 NoSuchVersion|NoSuchKey", k, v.String())
			}
		}
	}
	return vs, evals
}

func runVer(c *engine.Ctx, prop string) {
	keys := []string{"a", "b/c"}
	bodies := []string{"A", "B"}
	depth, maxEnt := 5, 3
	if !quick(c) {
		depth, maxEnt = 7, 4
	}
	if prop == "C13" && !quick(c) {
		depth = 6
	}
	name := prop + "/mem"
	c.SpecBudget = c.Budget() / 4
	engine.RunSeq(c, engine.SeqSpec{Name: name, World: "mem", MaxDepth: depth,
		New: func() (engine.Sys, error) { return newVerSys(prop, keys, bodies, maxEnt) }})
	c.Bounds[name] = map[string]interface{}{"keys": keys, "bodies": bodies, "history_depth": depth, "max_entries_per_key": maxEnt}
	// one-key universe, deeper
	name1 := prop + "/mem/1key"
	engine.RunSeq(c, engine.SeqSpec{Name: name1, World: "mem", MaxDepth: depth + 2,
		New: func() (engine.Sys, error) { return newVerSys(prop, []string{"a"}, bodies, maxEnt+1) }})
	c.Bounds[name1] = map[string]interface{}{"keys": []string{"a"}, "bodies": bodies, "history_depth": depth + 2, "max_entries_per_key": maxEnt + 1}
	if prop == "C05" {
		// ... and with the status history in the state key (suspended and re-enabled more than once)
		names := prop + "/mem/1key+status-history"
		engine.RunSeq(c, engine.SeqSpec{Name: names, World: "mem", MaxDepth: depth + 2,
			New: func() (engine.Sys, error) {
				s, err := newVerSys(prop, []string{"a"}, []string{"A"}, maxEnt)
				if err == nil {
					s.trackStatus = true
				}
				return s, err
			}})
		c.Bounds[names] = map[string]interface{}{"keys": []string{"a"}, "bodies": []string{"A"}, "history_depth": depth + 2, "max_entries_per_key": maxEnt, "state_key": "+ number of versioning status changes (capped at 4)"}
	}
	// keys that look like escapes: markers and version ids must round-trip as they are
	richKeys := []string{"a b", "a%2Fb", "a+b"}
	namer := prop + "/mem/rich-keys"
	engine.RunSeq(c, engine.SeqSpec{Name: namer, World: "mem", MaxDepth: depth - 1,
		New: func() (engine.Sys, error) { return newVerSys(prop, richKeys, []string{"A"}, 2) }})
	c.Bounds[namer] = map[string]interface{}{"keys": richKeys, "bodies": []string{"A"}, "history_depth": depth - 1, "max_entries_per_key": 2}
}

func init() {
	Registry["C05"] = func(c *engine.Ctx) {
		c.Rule = "state = canonical snapshot incl. every version and delete marker (ids replaced by creation rank) and versioning status; transition = put / delete / delete-version / multi-delete(+versions) / set-versioning checked against the A.3 version-stack model (suspended-mode ops resolved against the allowed successors); in every new state: unqualified GET/HEAD per key, GET/HEAD ?versionId for every live id, GET for every deleted id; distinct_nontrivial = distinct canonical states"
		c.Assumptions = append(c.Assumptions, "memory backend only (the only versioned one)", "what a put/delete while Suspended does to the null version is left open (AWS-style or minimal), enabled-era versions must survive", "ids of entries created without a returned id are learned from ListObjectVersions")
		runVer(c, "C05")
	}
}
