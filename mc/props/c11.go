package props

import (
	"bytes"
	"fmt"
	"math/big"
	"strconv"
	"strings"
	"sync"

	"verifmc/drv"
	"verifmc/engine"
)

// C11 — range reads (inputmc): every (size, Range header) of a finite menu on
// every backend against the arithmetic oracle of DESIGN A.5.

type rangeExp struct {
	ok          bool // must succeed with [first,last]
	first, last int64
	multi       bool // multi-range: 416 | 501 | whole object
	wsVariant   *rangeExp
}

func parseNat(s string) (*big.Int, bool) {
	if s == "" {
		return nil, false
	}
	for _, c := range s {
		if c < '0' || c > '9' {
			return nil, false
		}
	}
	n, ok := new(big.Int).SetString(s, 10)
	return n, ok
}

var maxInt63 = new(big.Int).SetUint64(1<<63 - 1)

// rangeOracle implements A.5 without whitespace tolerance (spec taken literally).
func rangeOracle(size int64, hdr string) rangeExp {
	if !strings.HasPrefix(hdr, "bytes=") {
		return rangeExp{}
	}
	spec := hdr[len("bytes="):]
	if strings.Contains(spec, ",") {
		return rangeExp{multi: true}
	}
	i := strings.Index(spec, "-")
	if i < 0 {
		return rangeExp{}
	}
	a, b := spec[:i], spec[i+1:]
	if a == "" {
		s, ok := parseNat(b)
		if !ok || s.Sign() == 0 || s.Cmp(big.NewInt(size)) > 0 {
			return rangeExp{}
		}
		return rangeExp{ok: true, first: size - s.Int64(), last: size - 1}
	}
	f, ok := parseNat(a)
	if !ok || f.Cmp(maxInt63) > 0 {
		return rangeExp{}
	}
	if f.Cmp(big.NewInt(size)) >= 0 {
		// first at or beyond the end (also decides malformed-or-not cases the same way: 416)
		if b != "" {
			if l, ok := parseNat(b); !ok || l.Cmp(maxInt63) > 0 || f.Cmp(l) > 0 {
				return rangeExp{}
			}
		}
		return rangeExp{}
	}
	if b == "" {
		return rangeExp{ok: true, first: f.Int64(), last: size - 1}
	}
	l, ok := parseNat(b)
	if !ok || f.Cmp(l) > 0 {
		return rangeExp{}
	}
	// (a last position of any magnitude is well formed and only ends beyond the object: clipped)
	last := size - 1
	if l.Cmp(big.NewInt(last)) < 0 {
		last = l.Int64()
	}
	return rangeExp{ok: true, first: f.Int64(), last: last}
}

// stripSpaces trims whitespace around the range spec and around its two
// numbers (what a lenient parser may do); whitespace inside a number stays and
// keeps the header malformed.
func stripSpaces(h string) string {
	if !strings.HasPrefix(h, "bytes=") {
		return h
	}
	// optional whitespace in HTTP is space and horizontal tab, nothing else
	trim := func(x string) string { return strings.Trim(x, " \t") }
	spec := trim(h[6:])
	i := strings.Index(spec, "-")
	if i < 0 {
		return "bytes=" + spec
	}
	return "bytes=" + trim(spec[:i]) + "-" + trim(spec[i+1:])
}

func rangeHeaders(n int64) []string {
	var vals []string
	for v := int64(-1); v <= n+2; v++ {
		vals = append(vals, strconv.FormatInt(v, 10))
	}
	big := []string{"2147483647", "2147483648", "9223372036854775806", "9223372036854775807", "9223372036854775808", "18446744073709551616", "1000000000000000000000000000000"}
	seen := map[string]bool{}
	var out []string
	add := func(h string) {
		if !seen[h] {
			seen[h] = true
			out = append(out, h)
		}
	}
	all := append(append([]string{}, vals...), big...)
	for _, f := range all {
		add("bytes=" + f + "-")
		add("bytes=-" + f)
		for _, l := range all {
			add("bytes=" + f + "-" + l)
		}
	}
	for _, h := range []string{"bytes=", "bytes=1", "bytes=a-b", "bytes=1-2-3", "bytes=--1", "bytes=-", "bytes", "", "boats=0-1", "BYTES=0-1", "Bytes=0-1", "bytes=0-1,2-3", "bytes=0-0,-1", "bytes= 1 - 2 ", "bytes=1 -2", "bytes= -2", "bytes=1- ", "bytes=0x1-2", "bytes=1-2;q=1", "bytes=１-2", "bytes=+1-2", "bytes=1-+2", "bytes=+1-", "bytes=-+2", "bytes=0--0", "bytes=+0-+0", "bytes=-0", "bytes=0-0", "bytes=-00", "bytes=00-01", "bytes=00000000000000000002-5", "bytes=2-00000000000000000005", "bytes=-00000000000000000003", "bytes=000000000000000000000000000001-000000000000000000000000000002", "bytes=1e0-2", " bytes=0-1", "bytes =0-1",
		"bytes=0 1-0 2", "bytes=0 0-0 1", "bytes=0 1-", "bytes=-0 1", "bytes=0\t1-2", "bytes=1-0 2", "bytes=0-1 ,", "bytes=0-1, ",
		"bytes=\u00a01-2", "bytes=1\u2003-2", "bytes=-\u30001", "bytes=0-1\u0085", "bytes=0-1,", "bytes=,0-1", "bytes=,", "bytes=0-1\nbytes=4-5", "bytes=0-1\ngarbage", "bytes=2-3\n1-1"} {
		add(h)
	}
	return out
}

func runC11(c *engine.Ctx) {
	c.Rule = "case = (object size 0..N, Range header from the menu: every first/last/suffix value in -1..N+2 and around 2^31/2^63/2^64/10^30, whitespace variants, malformed specs, other units, multiple ranges) on every backend (and, on the memory backend, of an archived and of the current version read by versionId in a versioned bucket), compared with the arithmetic oracle and across backends; plus, through the backends' Go API, every range request value {Start, End, FromEnd} in 0..N+1 used for two objects of different sizes in a row against a request value of its own; distinct_nontrivial = distinct (size, header) cases that are served as a satisfiable range"
	c.Assumptions = append(c.Assumptions, "200 and 206 are both accepted for a served range (statement does not fix it)", "multi-range headers: 416 or the whole object (no other failure, as the statement says), identical on all backends", "optional whitespace (space, tab) around the spec and its numbers may be trimmed (then served correctly) or rejected", "a Range header sent on two lines is the comma-joined list, i.e. a multi-range")
	N := int64(8)
	kinds := drv.AllKinds
	if !quick(c) {
		N = 16
	}
	hdrs := rangeHeaders(N)
	c.Bounds["max_size"] = N
	c.Bounds["headers"] = len(hdrs)
	var ks []string
	for _, k := range kinds {
		ks = append(ks, string(k))
	}
	c.Bounds["worlds"] = ks
	type res struct{ canon string }
	results := make([]map[string]string, 0)
	var mu sync.Mutex
	perCase := map[string]map[string]string{}
	_ = results
	// variants: every backend with plain objects; the memory backend also with a
	// versioned bucket, reading an archived and the current version by id
	type variant struct {
		name string
		kind drv.Kind
		ver  string // "" | "old" | "current"
	}
	var variants []variant
	for _, k := range kinds {
		variants = append(variants, variant{string(k), k, ""})
	}
	variants = append(variants, variant{"mem+versionId(archived)", drv.Mem, "old"}, variant{"mem+versionId(current)", drv.Mem, "current"})
	// objects uploaded with entity headers of their own (a Content-Range on the PUT must not come back on a ranged GET)
	variants = append(variants, variant{"mem+entity-headers-on-upload", drv.Mem, "hdr"}, variant{"multi-mem+entity-headers-on-upload", drv.MultiMem, "hdr"})
	ks = ks[:0]
	for _, vr := range variants {
		ks = append(ks, vr.name)
	}
	c.Bounds["worlds"] = ks
	for _, vr := range variants {
		kind := vr.kind
		vname := vr.name
		w, err := drv.NewWorld(drv.Config{Kind: kind})
		if err != nil {
			engine.HarnessError("C11: %v", err)
		}
		if !kind.IsSingle() {
			w.Do(drv.Req{Method: "PUT", Path: "/aaa"})
		}
		if vr.ver == "old" || vr.ver == "current" {
			if r := w.Do(drv.Req{Method: "PUT", Path: "/aaa", Query: "versioning", Body: []byte("<VersioningConfiguration><Status>Enabled</Status></VersioningConfiguration>")}); r.Status != 200 {
				engine.HarnessError("C11 setup versioning: %s", r.Short())
			}
		}
		bodies := map[int64][]byte{}
		queries := map[int64]string{}
		for sz := int64(0); sz <= N; sz++ {
			b := make([]byte, sz)
			for i := range b {
				b[i] = byte('a' + i)
			}
			bodies[sz] = b
			puts := [][]byte{b}
			if vr.ver == "old" {
				puts = [][]byte{b, []byte("NEWER-CONTENT-OF-ANOTHER-LENGTH")}
			} else if vr.ver == "current" {
				puts = [][]byte{[]byte("OLDER-CONTENT-OF-ANOTHER-LENGTH"), b}
			}
			for _, pb := range puts {
				var uh [][2]string
				if vr.ver == "hdr" {
					uh = drv.H("Content-Range", "bytes 0-99/100", "Content-Language", "en", "Content-Location", "/elsewhere", "Accept-Ranges", "none")
				}
				r := w.Do(drv.Req{Method: "PUT", Path: fmt.Sprintf("/aaa/o%d", sz), Body: pb, Header: uh})
				if r.Status != 200 {
					engine.HarnessError("C11 setup put: %s", r.Short())
				}
				if (vr.ver == "old" || vr.ver == "current") && bytes.Equal(pb, b) {
					id := r.Header.Get("x-amz-version-id")
					if id == "" {
						engine.HarnessError("C11 setup: no version id on a versioned put")
					}
					queries[sz] = drv.Q("versionId", id)
				}
			}
		}
		total := int(N+1) * len(hdrs)
		engine.ParallelFor(total, func(_, i int) {
			sz := int64(i / len(hdrs))
			h := hdrs[i%len(hdrs)]
			var hdr [][2]string
			if h != "" {
				hdr = drv.H("Range", h)
			}
			if i := strings.Index(h, "\n"); i >= 0 {
				// two header lines; the header to judge is the comma-joined list
				hdr = drv.H("Range", h[:i], "Range", h[i+1:])
			}
			r := w.Do(drv.Req{Method: "GET", Path: fmt.Sprintf("/aaa/o%d", sz), Query: queries[sz], Header: hdr})
			c.Add(0, 0, 0, 1)
			body := bodies[sz]
			canon := fmt.Sprintf("%s|cl=%s|cr=%s|%q", respSig(r), hget(r, "Content-Length"), hget(r, "Content-Range"), r.Body)
			ck := fmt.Sprintf("%d|%s", sz, h)
			mu.Lock()
			if perCase[ck] == nil {
				perCase[ck] = map[string]string{}
			}
			perCase[ck][vname] = canon
			mu.Unlock()
			bad := func(field, cond, format string, a ...interface{}) {
				op := "get-range"
				if queries[sz] != "" {
					op = "get-version-range"
				}
				c.Report(&engine.Violation{Sig: sig("C11", "any", op, field, cond), World: vname,
					History: []string{fmt.Sprintf("size=%d Range=%q %s", sz, h, queries[sz])}, Msg: fmt.Sprintf("object of %d bytes, Range: %q on %s: ", sz, h, vname) + fmt.Sprintf(format, a...)})
			}
			if r.Panic != "" {
				bad("panic@"+drv.PanicFrame(r.Panic), "-", "%s", firstLine(r.Panic))
				return
			}
			if h == "" {
				if r.Status != 200 || !bytes.Equal(r.Body, body) {
					bad("no-range", "-", "plain GET answered %s", r.Short())
				}
				return
			}
			if strings.Contains(h, "\n") {
				h = strings.Replace(h, "\n", ",", 1)
			}
			exp := rangeOracle(sz, h)
			alt := exp
			hs := stripSpaces(h)
			variant := hs != h
			if variant {
				alt = rangeOracle(sz, hs)
			}
			isOK := func(e rangeExp) bool {
				if !e.ok {
					return false
				}
				want := body[e.first : e.last+1]
				return (r.Status == 200 || r.Status == 206) && bytes.Equal(r.Body, want) &&
					hget(r, "Content-Length") == strconv.Itoa(len(want)) &&
					hget(r, "Content-Range") == fmt.Sprintf("bytes %d-%d/%d", e.first, e.last, sz)
			}
			is416 := r.Status == 416 && r.ErrCode() == "InvalidRange"
			switch {
			case exp.multi:
				whole := r.Status == 200 && bytes.Equal(r.Body, body) && hget(r, "Content-Range") == ""
				if !(is416 || whole) {
					bad("multi-range", "-", "answered %s body=%q", r.Short(), r.Body)
				}
			case exp.ok:
				if isOK(exp) {
					c.Distinct(ck)
				} else {
					cond := "in-range"
					if strings.Contains(h, "92233720368547758") || strings.Contains(h, "2147483") {
						cond = "huge-last"
					}
					bad("served-range", cond, "want bytes %d-%d/%d = %q; got %s cl=%s cr=%q body=%q", exp.first, exp.last, sz, body[exp.first:exp.last+1], r.Short(), hget(r, "Content-Length"), hget(r, "Content-Range"), r.Body)
				}
			default:
				if is416 {
					return
				}
				if variant && isOK(alt) {
					c.Distinct(ck)
					return
				}
				bad("rejection", "-", "want 416 InvalidRange; got %s cl=%s cr=%q body=%q", r.Short(), hget(r, "Content-Length"), hget(r, "Content-Range"), r.Body)
			}
		})
		c.Count(vname, "requests", int64(total))
		w.Close()
	}
	c11GoAPI(c, kinds, N)
	// identical across backends
	for ck, m := range perCase {
		first := ""
		for _, k := range kinds {
			v := m[string(k)]
			if first == "" {
				first = v
			} else if v != first {
				c.Report(&engine.Violation{Sig: sig("C11", "any", "get-range", "backend-disagreement", "-"), World: "all",
					History: []string{ck}, Msg: fmt.Sprintf("case %s: backends disagree: %v", ck, m)})
				break
			}
		}
	}
	c.Add(int64(len(perCase)), int64(len(perCase))*int64(len(kinds)), int64(len(perCase))*int64(len(kinds)), 0)
	c.AddSample(map[string]interface{}{"size": 3, "Range": "bytes=1-5", "expected": "bytes 1-2/3"})
	c.AddSample(map[string]interface{}{"size": 6, "Range": "bytes=0-9223372036854775807", "expected": "bytes 0-5/6"})
	c.AddSample(map[string]interface{}{"size": 0, "Range": "bytes=-1", "expected": "416 InvalidRange"})
}

func hget(r drv.Resp, k string) string {
	if r.Header == nil {
		return ""
	}
	return r.Header.Get(k)
}

func init() { Registry["C11"] = runC11 }
