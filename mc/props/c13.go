package props

import (
	"fmt"
	"sort"
	"strconv"
	"strings"

	"verifmc/drv"
	"verifmc/engine"
	"verifmc/model"
)

// C13 — version listings: state predicate on the C05 universe.

func verEntryKey(e drv.VerEntry) string {
	return fmt.Sprintf("%s|%s|%v|%s", e.Key, e.ID, e.Marker, e.ETag)
}

func renderVer(es []drv.VerEntry) string {
	var p []string
	for _, e := range es {
		t := "v"
		if e.Marker {
			t = "dm"
		}
		l := ""
		if e.IsLatest {
			l = "*"
		}
		id := e.ID
		if len(id) > 12 {
			id = "…" + id[8:33]
		}
		p = append(p, fmt.Sprintf("%s:%s%s(%s)", e.Key, t, l, id))
	}
	return "[" + strings.Join(p, " ") + "]"
}

func (s *verSys) checkVerListing() ([]*engine.Violation, int64) {
	var vs []*engine.Violation
	var evals int64
	st := s.m.Status
	if st == "" {
		st = "None"
	}
	var mkeys []string
	for k := range s.m.Keys {
		mkeys = append(mkeys, k)
	}
	sort.Strings(mkeys)
	for _, d := range []string{"", "/", "cb"} { // "cb": more than one character, occurs in no key
		for _, p := range []string{"", "a", "b", "b/"} {
			if d != "" && strings.HasPrefix(p, d) {
				continue
			}
			base := ""
			if p != "" {
				base = drv.Q("prefix", p)
			}
			if d != "" {
				base = joinQ(base, drv.Q("delimiter", d))
			}
			cond := delimClass(d) + "," + prefixClass(p, d) + ",status=" + st
			bad := func(op, field, format string, a ...interface{}) {
				vs = append(vs, viol(sig("C13", "mem", op, field, cond), "GET /aaa?versions&%s (model %s): %s", base, s.renderModel(), fmt.Sprintf(format, a...)))
			}
			grouped := model.Group(mkeys, p, d)
			ekeys, ecps := model.Split(grouped)
			full := s.w.ListVersions(s.bucket, base)
			evals++
			if full.Panic != "" {
				bad("list", "panic@"+drv.PanicFrame(full.Panic), "%s", firstLine(full.Panic))
				continue
			}
			if full.Status != 200 {
				bad("list", fmt.Sprintf("status=%d:%s", full.Status, full.Code), "expected 200")
				continue
			}
			if full.IsTruncated {
				bad("list", "truncated", "unpaginated listing reports IsTruncated=true")
				continue
			}
			// expected multiset
			want := map[string]int{}
			nWant := 0
			for _, k := range ekeys {
				for _, e := range s.m.Keys[k] {
					id := e.ID
					if s.m.Status == "" {
						id = "null"
					}
					want[fmt.Sprintf("%s|%s|%v|%s", k, id, e.Marker, entryETag(e))]++
					nWant++
				}
			}
			got := map[string]int{}
			for _, e := range full.Entries {
				id := e.ID
				got[fmt.Sprintf("%s|%s|%v|%s", e.Key, id, e.Marker, e.ETag)]++
			}
			okSet := len(full.Entries) == nWant
			for k, c := range want {
				if got[k] != c {
					okSet = false
				}
			}
			if !okSet {
				f := "entries-set"
				if len(full.Entries) > nWant {
					f = "entries-extra-or-repeated"
				} else if len(full.Entries) < nWant {
					f = "entries-missing"
				}
				bad("list", f, "listing %s, want every version of keys %q exactly once (%d entries)", renderVer(full.Entries), ekeys, nWant)
				continue
			}
			// grouping / order
			ordered := true
			for i := 1; i < len(full.Entries); i++ {
				if full.Entries[i].Key < full.Entries[i-1].Key {
					ordered = false
				}
			}
			if !ordered {
				bad("list", "key-order", "keys not ascending/grouped: %s", renderVer(full.Entries))
				continue
			}
			if strings.Join(full.Prefixes, "\x00") != strings.Join(ecps, "\x00") {
				bad("list", "common-prefixes", "CommonPrefixes %q want %q", full.Prefixes, ecps)
				continue
			}
			// IsLatest, Size
			latestBad := false
			for _, k := range ekeys {
				n := 0
				var flagged drv.VerEntry
				for _, e := range full.Entries {
					if e.Key == k && e.IsLatest {
						n++
						flagged = e
					}
				}
				l := s.m.Latest(k)
				if n != 1 {
					bad("list", "islatest-count", "key %q has %d IsLatest entries: %s", k, n, renderVer(full.Entries))
					latestBad = true
					break
				}
				if flagged.Marker != l.Marker || flagged.ETag != entryETag(*l) || (l.ID != "" && s.m.Status != "" && flagged.ID != l.ID) {
					bad("list", "islatest-identity", "key %q: IsLatest is on %s but an unqualified read resolves to the most recent entry of %s", k, renderVer([]drv.VerEntry{flagged}), renderEntries(s.m.Keys[k]))
					latestBad = true
					break
				}
			}
			if latestBad {
				continue
			}
			sizeBad := false
			for _, e := range full.Entries {
				if e.Marker {
					continue
				}
				for _, me := range s.m.Keys[e.Key] {
					if !me.Marker && entryETag(me) == e.ETag && e.Size != int64(len(me.Body)) {
						bad("list", "size", "entry %s size %d want %d", e.Key, e.Size, len(me.Body))
						sizeBad = true
					}
				}
				if sizeBad {
					break
				}
			}
			if sizeBad {
				continue
			}
			// paging with server markers
			n := len(full.Entries)
			for mk := 1; mk <= n+1; mk++ {
				var cat []drv.VerEntry
				km, vm := "", ""
				var trace []string
				failed := false
				for page := 0; ; page++ {
					if page > n+2 {
						bad("page", "no-termination", "max-keys=%d still truncated after %d pages: %s", mk, page, strings.Join(trace, " | "))
						failed = true
						break
					}
					q := joinQ(base, "max-keys="+strconv.Itoa(mk))
					if page > 0 {
						q = joinQ(q, drv.Q("key-marker", km, "version-id-marker", vm))
					}
					pg := s.w.ListVersions(s.bucket, q)
					evals++
					if pg.Panic != "" {
						bad("page", "panic@"+drv.PanicFrame(pg.Panic), "max-keys=%d page %d: %s; %s", mk, page, firstLine(pg.Panic), strings.Join(trace, " | "))
						failed = true
						break
					}
					if pg.Status != 200 {
						bad("page", fmt.Sprintf("status=%d:%s", pg.Status, pg.Code), "max-keys=%d page %d with server markers (%q,%q); %s", mk, page, km, vm, strings.Join(trace, " | "))
						failed = true
						break
					}
					trace = append(trace, fmt.Sprintf("%s trunc=%v", renderVer(pg.Entries), pg.IsTruncated))
					if len(pg.Entries) > mk {
						bad("page", "over-page-size", "max-keys=%d page has %d entries", mk, len(pg.Entries))
						failed = true
						break
					}
					cat = append(cat, pg.Entries...)
					if !pg.IsTruncated {
						break
					}
					if pg.NextKey == "" || pg.NextVer == "" {
						bad("page", "no-next-markers", "max-keys=%d: IsTruncated=true but NextKeyMarker=%q NextVersionIdMarker=%q; %s", mk, pg.NextKey, pg.NextVer, strings.Join(trace, " | "))
						failed = true
						break
					}
					km, vm = pg.NextKey, pg.NextVer
				}
				if failed {
					break
				}
				same := len(cat) == len(full.Entries)
				if same {
					for i := range cat {
						if verEntryKey(cat[i]) != verEntryKey(full.Entries[i]) {
							same = false
						}
					}
				}
				if !same {
					f := "pages-mismatch"
					if len(cat) > n {
						f = "pages-repeat"
					} else if len(cat) < n {
						f = "pages-skip"
					}
					bad("page", f, "max-keys=%d: concatenated pages %s != unpaginated %s", mk, strings.Join(trace, " | "), renderVer(full.Entries))
					break
				}
			}
			// marker pairs naming existing versions, combined with every prefix/delimiter (also
			// versions outside the prefix or inside a common prefix, and the id "null" a
			// never-versioned bucket reports): the answer is 200 and contains at least every
			// listed version of every key after the marker key, and the versions of the marker
			// key that follow the marker version
			if allV := s.w.ListVersions(s.bucket, ""); allV.Status == 200 && (d != "" || p != "" || s.m.Status == "") {
				for _, e := range allV.Entries {
					q := joinQ(base, drv.Q("key-marker", e.Key, "version-id-marker", e.ID))
					pg := s.w.ListVersions(s.bucket, q)
					evals++
					if pg.Panic != "" {
						bad("marker+filter", "panic@"+drv.PanicFrame(pg.Panic), "markers (%q,%q): %s", e.Key, e.ID, firstLine(pg.Panic))
						break
					}
					if pg.Status != 200 {
						bad("marker+filter", fmt.Sprintf("status=%d:%s", pg.Status, pg.Code), "markers (%q,%q) name an existing version", e.Key, e.ID)
						break
					}
					got := map[string]bool{}
					repeated := ""
					for _, pe := range pg.Entries {
						got[verEntryKey(pe)] = true
						if pe.Key < e.Key || (pe.Key == e.Key && pe.ID == e.ID) {
							repeated = renderVer([]drv.VerEntry{pe})
						}
					}
					if repeated != "" {
						bad("marker+filter", "repeated", "markers (%q,%q): %s is at or before the marker and is returned again: %s", e.Key, e.ID, repeated, renderVer(pg.Entries))
						break
					}
					missing := ""
					after := false
					for _, fe := range full.Entries {
						if fe.Key == e.Key && fe.ID == e.ID {
							after = true
							continue
						}
						if fe.Key > e.Key || (fe.Key == e.Key && after) {
							if !got[verEntryKey(fe)] {
								missing = renderVer([]drv.VerEntry{fe})
								break
							}
						}
					}
					if missing != "" && !pg.IsTruncated {
						bad("marker+filter", "skipped", "markers (%q,%q): %s follows the marker in %s but is not returned: %s", e.Key, e.ID, missing, renderVer(full.Entries), renderVer(pg.Entries))
						break
					}
				}
			}
			// a key marker beyond the last key: nothing follows it, and a response that
			// claims otherwise has to say where to continue
			for _, q := range []string{drv.Q("key-marker", "zzz"), joinQ("max-keys=1", drv.Q("key-marker", "zzz"))} {
				pg := s.w.ListVersions(s.bucket, joinQ(base, q))
				evals++
				if pg.Panic != "" || pg.Status != 200 {
					bad("marker-beyond-end", fmt.Sprintf("status=%d:%s%s", pg.Status, pg.Code, panicSigOf(pg.Panic)), "%s", q)
					break
				}
				if pg.IsTruncated && (pg.NextKey == "" || pg.NextVer == "") {
					bad("marker-beyond-end", "no-next-markers", "%s: IsTruncated=true but NextKeyMarker=%q NextVersionIdMarker=%q", q, pg.NextKey, pg.NextVer)
					break
				}
				if len(pg.Entries) > 0 || pg.IsTruncated {
					bad("marker-beyond-end", "not-empty", "%s: %s trunc=%v although no key sorts after the marker", q, renderVer(pg.Entries), pg.IsTruncated)
					break
				}
			}
			// client-invented marker pairs naming existing versions
			if d == "" && p == "" && s.m.Status != "" {
				all := map[string]bool{}
				for _, e := range full.Entries {
					all[verEntryKey(e)] = true
				}
				for _, e := range full.Entries {
					for _, mk := range []string{"1", "1000"} {
						for _, withVer := range []bool{true, false} {
							q := joinQ("max-keys="+mk, drv.Q("key-marker", e.Key))
							if withVer {
								q = joinQ(q, drv.Q("version-id-marker", e.ID))
							}
							pg := s.w.ListVersions(s.bucket, q)
							evals++
							if pg.Panic != "" {
								bad("client-marker", "panic@"+drv.PanicFrame(pg.Panic), "markers (%q, version=%v): %s", e.Key, withVer, firstLine(pg.Panic))
								break
							}
							if pg.Status != 200 {
								bad("client-marker", fmt.Sprintf("status=%d:%s", pg.Status, pg.Code), "markers (%q, version=%v) naming an existing version", e.Key, withVer)
								break
							}
							seen := map[string]bool{}
							for _, pe := range pg.Entries {
								k := verEntryKey(pe)
								if !all[k] || seen[k] {
									bad("client-marker", "not-a-subset", "markers (%q, version=%v): %s is not a duplicate-free subset of %s", e.Key, withVer, renderVer(pg.Entries), renderVer(full.Entries))
									break
								}
								seen[k] = true
							}
						}
					}
				}
			}
		}
	}
	return vs, evals
}

func (s *verSys) renderModel() string {
	var ks []string
	for k := range s.m.Keys {
		ks = append(ks, k)
	}
	sort.Strings(ks)
	var p []string
	for _, k := range ks {
		p = append(p, k+"="+renderEntries(s.m.Keys[k]))
	}
	return "{" + s.m.Status + " " + strings.Join(p, " ") + "}"
}

func init() {
	Registry["C13"] = func(c *engine.Ctx) {
		c.Rule = "state = canonical version-stack snapshot reached by a C05 history; evaluation = one ListObjectVersions request (prefix x delimiter, unpaginated; every max-keys 1..n+1 walked with the server's NextKeyMarker/NextVersionIdMarker; client marker pairs naming existing versions); plus, through the memory backend's Go API, a listing result kept by its caller across later listings; distinct_nontrivial = distinct canonical states"
		c.Assumptions = append(c.Assumptions, "order of versions within one key is not fixed by the statement (the unpaginated order is the reference for paging)", "step divergences of the put/delete/version ops belong to C05 and prune the successor here")
		runVer(c, "C13")
		if c.Replay == nil {
			bigVersions(c)
			c13GoAPI(c)
		}
	}
}
