package props

import (
	"fmt"
	"sort"
	"strings"
	"sync"

	"verifmc/drv"
	"verifmc/engine"
	"verifmc/model"
)

// C17 — bucket names (inputmc): exhaustive strings over an 8-letter alphabet
// plus length/IP families, against an independent regex-free oracle.

func isAlnum(c byte) bool { return (c >= 'a' && c <= 'z') || (c >= '0' && c <= '9') }

// nameOracle: 1 = must be accepted, 0 = must be refused, -1 = either (IP look-alikes).
func nameOracle(name string) int {
	if len(name) < 3 || len(name) > 63 {
		return 0
	}
	labels := strings.Split(name, ".")
	allDigits := true
	for _, l := range labels {
		if len(l) < 3 {
			return 0
		}
		for i := 0; i < len(l); i++ {
			c := l[i]
			if !isAlnum(c) && c != '-' {
				return 0
			}
			if c < '0' || c > '9' {
				allDigits = false
			}
		}
		if !isAlnum(l[0]) || !isAlnum(l[len(l)-1]) {
			return 0
		}
	}
	if len(labels) == 4 && allDigits {
		strict := true
		for _, l := range labels {
			if len(l) > 3 || (len(l) > 1 && l[0] == '0') {
				strict = false
			}
			v := 0
			for _, ch := range l {
				v = v*10 + int(ch-'0')
			}
			if v > 255 {
				strict = false
			}
		}
		_ = strict
		// four dot-separated groups of digits: formatted as an IP address, whether or not a
		// resolver would accept the numbers (leading zeros, components above 255)
		return 0
	}
	return 1
}

func c17Names(maxLen int) (chunks [][]string, total int) {
	alpha := "az09-.A_"
	all := model.Strings(alpha, maxLen)[1:]
	by := map[string][]string{}
	for _, n := range all {
		k := n
		if len(k) > 2 {
			k = k[:2]
		}
		by[k] = append(by[k], n)
	}
	var keys []string
	for k := range by {
		keys = append(keys, k)
	}
	sort.Strings(keys)
	for _, k := range keys {
		chunks = append(chunks, by[k])
		total += len(by[k])
	}
	// families: lengths 1..70, hyphen/dot placement, IP look-alikes
	var fam []string
	for l := 1; l <= 70; l++ {
		a := strings.Repeat("a", l)
		fam = append(fam, a, a[:l-1]+"-", "-"+a[1:])
		for p := 1; p < l-1; p++ {
			fam = append(fam, a[:p]+"."+a[p+1:])
		}
	}
	// many labels with one defective label at every position
	for k := 2; k <= 8; k++ {
		for pos := 0; pos < k; pos++ {
			for _, bad := range []string{"", "ab", "-bc", "ab-", "aBc", "a_c", "abc"} {
				ls := make([]string, k)
				for i := range ls {
					ls[i] = "abc"
				}
				ls[pos] = bad
				fam = append(fam, strings.Join(ls, "."))
			}
		}
	}
	fam = append(fam, "192.168.100.200", "111.222.333.444", "1.2.3.4", "127.000.000.001", "255.255.255.255", "256.256.256.256", "100.100.100", "100.100.100.100.100", "::1", "fe80::1", "2001:db8::1", "abc.def", "abc..def", ".abc", "abc.", "a-b", "a--b", "abc.d-f", "abc.-ef", "xn--abc", "aaa.bbb.ccc", "1234", "0000", "aaa/bbb")
	{ // the families overlap: every name once
		seen := map[string]bool{}
		var u []string
		for _, n := range fam {
			if !seen[n] {
				seen[n] = true
				u = append(u, n)
			}
		}
		fam = u
	}
	for i := 0; i < len(fam); i += 500 {
		j := i + 500
		if j > len(fam) {
			j = len(fam)
		}
		chunks = append(chunks, fam[i:j])
		total += j - i
	}
	return
}

func runC17(c *engine.Ctx) {
	c.Level = "model_checking"
	c.Rule = "case = PUT /<name> for every string over {a,z,0,9,-,.,A,_} up to the length bound plus the length/IP families, on mem, bolt and multi-bucket fs, compared with an independent regex-free implementation of the stated rule; refused names are probed with HEAD, and after every chunk ListBuckets must equal the set of created names; plus every ordered triple of 9 valid names that are prefixes/neighbours of one another created in one store (each must be accepted, listed, refused as existing when repeated, and deletable alone); plus every sequence of <= 6 (thorough: 8) object, copy, multi-delete, multipart, versioning and form-upload requests interleaved with create/delete of the bucket, after each of which ListBuckets and HEAD bucket must agree with the set of buckets created and not deleted; distinct_nontrivial = distinct names accepted by the oracle"
	c.Assumptions = append(c.Assumptions, "names containing '/' address a key, not a bucket, and are not bucket names")
	maxLen := 6
	if !quick(c) {
		maxLen = 7
	}
	chunks, total := c17Names(maxLen)
	c.Bounds["alphabet"] = "az09-.A_"
	c.Bounds["max_len"] = maxLen
	c.Bounds["names"] = total
	kinds := []drv.Kind{drv.Mem, drv.Bolt, drv.MultiMem}
	var mu sync.Mutex
	decisions := map[string]string{}
	engine.ParallelFor(len(chunks), func(_, ci int) {
		names := chunks[ci]
		for _, kind := range kinds {
			w, err := drv.NewWorld(drv.Config{Kind: kind})
			if err != nil {
				engine.HarnessError("C17: %v", err)
			}
			var created []string
			for _, name := range names {
				if strings.Contains(name, "/") {
					continue
				}
				r := w.Do(drv.Req{Method: "PUT", Path: "/" + name})
				c.Add(0, 0, 0, 1)
				want := nameOracle(name)
				accepted := r.Status == 200 && r.Panic == ""
				refused := r.Status == 400 && r.ErrCode() == "InvalidBucketName"
				bad := func(field, cond, format string, a ...interface{}) {
					c.Report(&engine.Violation{Sig: sig("C17", "any", "create-bucket", field, cond), World: string(kind), History: []string{fmt.Sprintf("PUT /%s", name)},
						Msg: fmt.Sprintf("bucket name %q on %s: ", name, kind) + fmt.Sprintf(format, a...)})
				}
				switch {
				case r.Panic != "":
					bad("panic@"+drv.PanicFrame(r.Panic), "-", "%s", firstLine(r.Panic))
					continue
				case !accepted && !refused:
					bad("answer", nameClass(name), "neither created nor InvalidBucketName: %s", r.Short())
					continue
				case want == 1 && !accepted:
					bad("refused-valid", nameClass(name), "valid name refused: %s", r.Short())
				case want == 0 && accepted:
					bad("accepted-invalid", nameClass(name), "invalid name accepted")
				}
				if accepted {
					created = append(created, name)
					if want == 1 {
						c.Distinct(name)
					}
				} else {
					h := w.Do(drv.Req{Method: "HEAD", Path: "/" + name})
					c.Add(0, 0, 0, 1)
					if h.Status != 404 {
						bad("refused-but-exists", nameClass(name), "HEAD after refusal answers %s", h.Short())
					}
				}
				mu.Lock()
				d := "refused"
				if accepted {
					d = "accepted"
				}
				if prev, ok := decisions[name]; ok && prev != d {
					mu.Unlock()
					bad("backend-disagreement", nameClass(name), "%s here but %s on another backend", d, prev)
				} else {
					decisions[name] = d
					mu.Unlock()
				}
			}
			listed, lr := w.ListBuckets()
			c.Add(0, 0, 0, 1)
			sort.Strings(created)
			if lr.Status != 200 || strings.Join(listed, "\x00") != strings.Join(created, "\x00") {
				extra := diffStrings(listed, created)
				missing := diffStrings(created, listed)
				c.Report(&engine.Violation{Sig: sig("C17", string(kind), "list-buckets", "created-set", "-"), World: string(kind),
					History: []string{fmt.Sprintf("chunk %d (%d names)", ci, len(names))},
					Msg:     fmt.Sprintf("ListBuckets on %s after the chunk: %s; listed but never created: %q; created but not listed: %q", kind, lr.Short(), clipList(extra), clipList(missing))})
			}
			w.Close()
		}
	})
	// the decision must not depend on the buckets that already exist: every
	// ordered triple of valid names that are prefixes / neighbours of one another
	rel := []string{"aaa", "aaaa", "aaa-a", "aaa.aaa", "aaa.aaa.aaa", "aaa0", "aab", "aa0", "zzz"}
	var seqs [][]string
	for _, a := range rel {
		for _, b := range rel {
			for _, d := range rel {
				if a != b && b != d && a != d {
					seqs = append(seqs, []string{a, b, d})
				}
			}
		}
	}
	c.Bounds["related_name_sequences"] = len(seqs)
	engine.ParallelFor(len(seqs), func(_, i int) {
		for _, kind := range kinds {
			w, err := drv.NewWorld(drv.Config{Kind: kind})
			if err != nil {
				engine.HarnessError("C17: %v", err)
			}
			// a create request refused for its query string (an escape that cannot be decoded) creates nothing
			for _, q := range []string{"x-id=%zz", "b=%"} {
				r := w.Do(drv.Req{Method: "PUT", Path: "/" + seqs[i][0], Query: q})
				h := w.Do(drv.Req{Method: "HEAD", Path: "/" + seqs[i][0]})
				c.Add(0, 1, 0, 2)
				if r.Panic == "" && r.Status >= 400 && h.Status != 404 {
					c.Report(&engine.Violation{Sig: sig("C17", "any", "create-bucket", "refused-but-exists", "unparsable-query"), World: string(kind), History: []string{"PUT /" + seqs[i][0] + "?" + q},
						Msg: fmt.Sprintf("on %s, PUT /%s?%s is refused (%s) but HEAD of the bucket then answers %s", kind, seqs[i][0], q, r.Short(), h.Short())})
				}
				if r.Panic == "" && r.Status < 400 {
					w.Do(drv.Req{Method: "DELETE", Path: "/" + seqs[i][0]})
				}
			}
			for j, name := range seqs[i] {
				r := w.Do(drv.Req{Method: "PUT", Path: "/" + name})
				c.Add(0, 1, 0, 1)
				if r.Status != 200 || r.Panic != "" {
					c.Report(&engine.Violation{Sig: sig("C17", string(kind), "create-bucket", "refused-valid", "next-to-related-name"), World: string(kind), History: seqs[i][:j+1],
						Msg: fmt.Sprintf("on %s, after creating %q the valid name %q is refused: %s", kind, seqs[i][:j], name, r.Short())})
					break
				}
			}
			listed, _ := w.ListBuckets()
			want := append([]string{}, seqs[i]...)
			sort.Strings(want)
			if strings.Join(listed, " ") != strings.Join(want, " ") {
				c.Report(&engine.Violation{Sig: sig("C17", string(kind), "list-buckets", "created-set", "related-names"), World: string(kind), History: seqs[i],
					Msg: fmt.Sprintf("on %s, after creating %q ListBuckets shows %q", kind, seqs[i], listed)})
			}
			// re-creating is refused as existing, not as invalid, and a sibling can still be deleted alone
			if r := w.Do(drv.Req{Method: "PUT", Path: "/" + seqs[i][0]}); r.Status != 409 {
				c.Report(&engine.Violation{Sig: sig("C17", string(kind), "create-bucket", "recreate", "related-names"), World: string(kind), History: seqs[i],
					Msg: fmt.Sprintf("on %s, creating %q a second time answers %s, want 409 BucketAlreadyExists", kind, seqs[i][0], r.Short())})
			}
			w.Do(drv.Req{Method: "DELETE", Path: "/" + seqs[i][1]})
			listed, _ = w.ListBuckets()
			want = []string{seqs[i][0], seqs[i][2]}
			sort.Strings(want)
			if strings.Join(listed, " ") != strings.Join(want, " ") {
				c.Report(&engine.Violation{Sig: sig("C17", string(kind), "list-buckets", "after-delete", "related-names"), World: string(kind), History: append(append([]string{}, seqs[i]...), "delete "+seqs[i][1]),
					Msg: fmt.Sprintf("on %s, after creating %q and deleting %q ListBuckets shows %q", kind, seqs[i], seqs[i][1], listed)})
			}
			// ... and the two that were not deleted are still there, whole
			for _, name := range want {
				h := w.Do(drv.Req{Method: "HEAD", Path: "/" + name})
				r := w.Do(drv.Req{Method: "PUT", Path: "/" + name})
				c.Add(0, 1, 0, 2)
				if h.Status != 200 || r.Status != 409 {
					c.Report(&engine.Violation{Sig: sig("C17", string(kind), "create-bucket", "sibling-after-delete", "related-names"), World: string(kind), History: append(append([]string{}, seqs[i]...), "delete "+seqs[i][1]),
						Msg: fmt.Sprintf("on %s, after creating %q and deleting %q: HEAD /%s answers %s and creating it again answers %s (want 200 and 409 BucketAlreadyExists)", kind, seqs[i], seqs[i][1], name, h.Short(), r.Short())})
					break
				}
			}
			w.Close()
		}
	})
	c.Add(int64(total), int64(total*len(kinds)), int64(total*len(kinds)), 0)
	runC17Sequences(c)
	runC17HostStyle(c)
	c.AddSample(map[string]interface{}{"name": "a-z", "oracle": "accept"})
	c.AddSample(map[string]interface{}{"name": "aaa.zz", "oracle": "refuse (label shorter than 3)"})
	c.AddSample(map[string]interface{}{"name": "192.168.100.200", "oracle": "refuse (IPv4)"})
}

func nameClass(n string) string {
	switch {
	case len(n) < 3:
		return "too-short"
	case len(n) > 63:
		return "too-long"
	case strings.Contains(n, ".."):
		return "empty-label"
	case strings.Contains(n, "."):
		return "dotted"
	case strings.ContainsAny(n, "A_"):
		return "illegal-char"
	case strings.HasPrefix(n, "-") || strings.HasSuffix(n, "-"):
		return "hyphen-edge"
	}
	return "plain"
}

func diffStrings(a, b []string) []string {
	m := map[string]bool{}
	for _, x := range b {
		m[x] = true
	}
	var out []string
	for _, x := range a {
		if !m[x] {
			out = append(out, x)
		}
	}
	return out
}

func clipList(l []string) []string {
	if len(l) > 5 {
		return append(l[:5:5], "…")
	}
	return l
}

func init() { Registry["C17"] = runC17 }

// ---- "no backend ever lists a bucket that was not created" over operation sequences ----

type c17Op struct{ name string }

func (o c17Op) String() string { return o.name }

type c17Sys struct {
	w      *drv.World
	exists bool   // bucket aaa (bbb always exists)
	upload string // id of the last initiated upload
	// the uploader's pending state is invisible while the bucket is gone; it decides what a
	// later complete does, so it is part of the state key
	hasPart bool
}

func newC17Sys(kind drv.Kind) (*c17Sys, error) {
	w, err := drv.NewWorld(drv.Config{Kind: kind})
	if err != nil {
		return nil, err
	}
	if r := w.Do(drv.Req{Method: "PUT", Path: "/bbb"}); r.Status != 200 {
		w.Close()
		return nil, fmt.Errorf("setup: %s", r.Short())
	}
	w.Do(drv.Req{Method: "PUT", Path: "/bbb/src", Body: []byte("source")})
	return &c17Sys{w: w}, nil
}

func (s *c17Sys) Close() { s.w.Close() }

var c17OpList = []engine.Op{
	c17Op{"create-bucket"}, c17Op{"delete-bucket"}, c17Op{"put"}, c17Op{"delete"}, c17Op{"copy-into"}, c17Op{"multi-delete"},
	c17Op{"initiate"}, c17Op{"upload-part"}, c17Op{"complete"}, c17Op{"abort"}, c17Op{"put-versioning"}, c17Op{"form-upload"},
	c17Op{"force-delete-bucket"},
}

func (s *c17Sys) Ops() []engine.Op { return c17OpList }

func (s *c17Sys) Key() string {
	return drv.KeyOf(s.w.Snapshot(drv.SnapOpts{Uploads: true, Versions: s.w.Cfg.Kind == drv.Mem}) + fmt.Sprintf("|exists=%v|upload=%s|part=%v", s.exists, s.upload, s.hasPart))
}

func (s *c17Sys) Apply(op engine.Op) (string, *engine.Violation) {
	o := op.(c17Op)
	id := s.upload
	if id == "" {
		id = "1"
	}
	var r drv.Resp
	switch o.name {
	case "create-bucket":
		r = s.w.Do(drv.Req{Method: "PUT", Path: "/aaa"})
		if r.Status == 200 {
			s.exists = true
		} else if !s.exists && r.Panic == "" {
			// a valid name that no bucket has: the create succeeds, whatever came before
			return respSig(r), viol(sig("C17", string(s.w.Cfg.Kind), "sequence", "create-bucket", "valid-absent-name-refused"), "PUT /aaa (no such bucket exists or is listed) answers %s", r.Short())
		}
	case "force-delete-bucket":
		// (what this request answers is not C17's business; afterwards the bucket is there or it is not)
		r = s.w.Do(drv.Req{Method: "DELETE", Path: "/aaa", Header: drv.H("x-minio-force-delete", "true")})
		if s.exists && s.w.Do(drv.Req{Method: "HEAD", Path: "/aaa"}).Status == 404 {
			s.exists = false
			s.hasPart, s.upload = false, ""
		}
	case "delete-bucket":
		r = s.w.Do(drv.Req{Method: "DELETE", Path: "/aaa"})
		if r.Status == 204 {
			s.exists = false
		}
	case "put":
		r = s.w.Do(drv.Req{Method: "PUT", Path: "/aaa/k", Body: []byte("v")})
	case "delete":
		r = s.w.Do(drv.Req{Method: "DELETE", Path: "/aaa/k"})
	case "copy-into":
		r = s.w.Do(drv.Req{Method: "PUT", Path: "/aaa/k", Header: drv.H("X-Amz-Copy-Source", "/bbb/src")})
	case "multi-delete":
		r = s.w.Do(drv.Req{Method: "POST", Path: "/aaa", Query: "delete", Body: multiDeleteBody([]string{"k"}, false)})
	case "initiate":
		r = s.w.Do(drv.Req{Method: "POST", Path: "/aaa/k", Query: "uploads"})
		if n := r.XML(); r.Status == 200 && n != nil {
			s.upload = n.T("UploadId")
			s.hasPart = false
		}
	case "upload-part":
		r = s.w.Do(drv.Req{Method: "PUT", Path: "/aaa/k", Query: drv.Q("uploadId", id, "partNumber", "1"), Body: []byte("pp")})
		if r.Status == 200 {
			s.hasPart = true
		}
	case "complete":
		r = s.w.Do(drv.Req{Method: "POST", Path: "/aaa/k", Query: drv.Q("uploadId", id),
			Body: []byte("<CompleteMultipartUpload><Part><PartNumber>1</PartNumber><ETag>" + drv.ETagOf([]byte("pp")) + "</ETag></Part></CompleteMultipartUpload>")})
		if r.Status == 200 {
			s.hasPart, s.upload = false, ""
		}
	case "abort":
		r = s.w.Do(drv.Req{Method: "DELETE", Path: "/aaa/k", Query: drv.Q("uploadId", id)})
		if r.Status == 204 {
			s.hasPart, s.upload = false, ""
		}
	case "put-versioning":
		r = s.w.Do(drv.Req{Method: "PUT", Path: "/aaa", Query: "versioning", Body: []byte("<VersioningConfiguration><Status>Enabled</Status></VersioningConfiguration>")})
	case "form-upload":
		b, _ := formBody("k", []byte("form"), nil)
		r = s.w.Do(drv.Req{Method: "POST", Path: "/aaa", Header: drv.H("Content-Type", "multipart/form-data; boundary=verifboundary"), Body: b})
	}
	if r.Panic != "" {
		return respSig(r), viol(sig("C17", string(s.w.Cfg.Kind), "sequence", o.name, "panic@"+drv.PanicFrame(r.Panic)), "%s", firstLine(r.Panic))
	}
	// which answer the operation itself gets is decided by C02/C06; here only the bucket set counts
	return respSig(r), nil
}

func (s *c17Sys) Check() ([]*engine.Violation, int64) {
	kind := string(s.w.Cfg.Kind)
	names, lr := s.w.ListBuckets()
	want := []string{"bbb"}
	if s.exists {
		want = []string{"aaa", "bbb"}
	}
	if lr.Status != 200 || strings.Join(names, ",") != strings.Join(want, ",") {
		f := "bucket-listed-that-was-not-created"
		if len(names) < len(want) {
			f = "created-bucket-not-listed"
		}
		return []*engine.Violation{viol(sig("C17", kind, "sequence", "list-buckets", f), "ListBuckets answers %s %q; created and not deleted: %q", lr.Short(), names, want)}, 2
	}
	h := s.w.Do(drv.Req{Method: "HEAD", Path: "/aaa"})
	if (h.Status == 200) != s.exists {
		return []*engine.Violation{viol(sig("C17", kind, "sequence", "head-bucket", fmt.Sprintf("exists=%v", s.exists)), "HEAD /aaa answers %s although the bucket exists=%v", h.Short(), s.exists)}, 2
	}
	return nil, 2
}

func runC17Sequences(c *engine.Ctx) {
	kinds := []drv.Kind{drv.Mem, drv.Bolt, drv.MultiMem}
	depth := 6
	if !quick(c) {
		kinds = append(kinds, drv.MultiDir)
		depth = 8
	}
	for _, k := range kinds {
		k := k
		name := "C17/" + string(k) + "/bucket-set-under-operation-sequences"
		engine.RunSeq(c, engine.SeqSpec{Name: name, World: string(k), MaxDepth: depth,
			New: func() (engine.Sys, error) { return newC17Sys(k) }})
		c.Bounds[name] = map[string]interface{}{"ops": len(c17OpList), "depth": depth}
	}
}

// runC17HostStyle: the decision is the same when the name arrives as the label of a
// virtual-host style request (PUT / with Host: <name>.<base>) instead of in the path.
func runC17HostStyle(c *engine.Ctx) {
	var names []string
	const alpha = "az09-A_"
	var gen func(prefix string, n int)
	gen = func(prefix string, n int) {
		if n == 0 {
			names = append(names, prefix)
			return
		}
		for _, ch := range alpha {
			gen(prefix+string(ch), n-1)
		}
	}
	gen("", 3)
	gen("", 4)
	names = append(names, "ABC", "Abc", "abC", "aBc-def", "abc-DEF", strings.Repeat("a", 63), strings.Repeat("a", 64), strings.Repeat("A", 10))
	c.Bounds["host_style_names"] = len(names)
	type cfgT struct {
		name string
		cfg  drv.Config
	}
	cfgs := []cfgT{{"bases[b1.test]", drv.Config{Kind: drv.Mem, HostBases: []string{"b1.test"}}}, {"host-bucket", drv.Config{Kind: drv.Mem, HostBucket: true}}}
	chunks := 16
	engine.ParallelFor(chunks*len(cfgs), func(_, ji int) {
		cf := cfgs[ji%len(cfgs)]
		ci := ji / len(cfgs)
		w, err := drv.NewWorld(cf.cfg)
		if err != nil {
			engine.HarnessError("C17: %v", err)
		}
		defer w.Close()
		var created []string
		for i := ci; i < len(names); i += chunks {
			name := names[i]
			r := w.Do(drv.Req{Method: "PUT", Path: "/", Host: name + ".b1.test"})
			c.Add(0, 1, 1, 1)
			want := nameOracle(name)
			accepted := r.Status == 200 && r.Panic == ""
			bad := func(field, format string, a ...interface{}) {
				c.Report(&engine.Violation{Sig: sig("C17", "any", "create-bucket-host-style", cf.name, field, nameClass(name)), World: cf.name, History: []string{fmt.Sprintf("PUT / Host: %s.b1.test", name)},
					Msg: fmt.Sprintf("bucket name %q as the host label (%s): ", name, cf.name) + fmt.Sprintf(format, a...)})
			}
			switch {
			case r.Panic != "":
				bad("panic@"+drv.PanicFrame(r.Panic), "%s", firstLine(r.Panic))
			case want == 1 && !accepted:
				bad("refused-valid", "valid name refused: %s", r.Short())
			case want == 0 && accepted:
				bad("accepted-invalid", "invalid name accepted")
			case want == 0 && !(r.Status == 400 && r.ErrCode() == "InvalidBucketName"):
				bad("answer", "refused with %s, want 400 InvalidBucketName", r.Short())
			}
			if accepted {
				created = append(created, name)
			}
		}
		// (in host-bucket mode every request names a bucket, so the service-level listing is
		// taken from the backend the server runs on)
		bis, lerr := w.Backend.ListBuckets()
		var listed []string
		for _, bi := range bis {
			listed = append(listed, bi.Name)
		}
		sort.Strings(listed)
		sort.Strings(created)
		if lerr != nil || strings.Join(listed, "\x00") != strings.Join(created, "\x00") {
			c.Report(&engine.Violation{Sig: sig("C17", "any", "create-bucket-host-style", cf.name, "list-buckets", "created-set"), World: cf.name,
				Msg: fmt.Sprintf("ListBuckets after host-style creations: listed but not created %q; created but not listed %q", clipList(diffStrings(listed, created)), clipList(diffStrings(created, listed)))})
		}
	})
}
