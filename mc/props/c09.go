package props

import (
	"encoding/base64"
	"fmt"
	"net/http"
	"os"
	"sort"
	"strconv"
	"strings"
	"sync"
	"time"

	"verifmc/drv"
	"verifmc/engine"
)

// C09 — every request gets a well-formed answer (inputmc over a request
// grammar x reachable states): base request per route, every request within
// <= k deviations (slot := menu value) from it.

type kv struct{ k, v string }

type gReq struct {
	route   string
	method  string
	path    string
	query   []kv // v == "\x00": flag without value
	header  []kv
	body    string
	lenMode string // "" exact | missing | negative | nonnumeric | plus1
	rawq    string // appended to the query string as it is (not escaped)
}

func (g gReq) clone() gReq {
	g.query = append([]kv{}, g.query...)
	g.header = append([]kv{}, g.header...)
	return g
}

func setKV(l []kv, k, v string) []kv {
	for i := range l {
		if strings.EqualFold(l[i].k, k) {
			l[i].v = v
			return l
		}
	}
	return append(l, kv{k, v})
}

func delKV(l []kv, k string) []kv {
	var out []kv
	for _, e := range l {
		if !strings.EqualFold(e.k, k) {
			out = append(out, e)
		}
	}
	return out
}

type deviation struct {
	slot string // method | path | q:<name> | h:<name> | body | len
	val  string // "\x01" = remove
	desc string
}

func (d deviation) String() string { return d.slot + "=" + d.desc }

func (g gReq) apply(d deviation) gReq {
	g = g.clone()
	switch {
	case d.slot == "method":
		g.method = d.val
	case d.slot == "path":
		g.path = d.val
	case d.slot == "body":
		g.body = d.val
	case d.slot == "len":
		g.lenMode = d.val
	case d.slot == "rawq":
		g.rawq = d.val
	case strings.HasPrefix(d.slot, "q:"):
		if d.val == "\x01" {
			g.query = delKV(g.query, d.slot[2:])
		} else {
			g.query = setKV(g.query, d.slot[2:], d.val)
		}
	case strings.HasPrefix(d.slot, "h:"):
		if d.val == "\x01" {
			g.header = delKV(g.header, d.slot[2:])
		} else {
			g.header = setKV(g.header, d.slot[2:], d.val)
		}
	}
	return g
}

func subst(s string, vars map[string]string) string {
	if !strings.Contains(s, "$") {
		return s
	}
	var ks []string
	for k := range vars {
		ks = append(ks, k)
	}
	sort.Slice(ks, func(i, j int) bool { return len(ks[i]) > len(ks[j]) })
	for _, k := range ks {
		s = strings.ReplaceAll(s, "$"+k, vars[k])
	}
	return s
}

func (g gReq) build(vars map[string]string) drv.Req {
	r := drv.Req{Method: g.method, Path: subst(g.path, vars)}
	var qs []string
	for _, e := range g.query {
		if e.v == "\x00" {
			qs = append(qs, drv.Q(e.k, "\x00"))
		} else {
			qs = append(qs, drv.Q(e.k, subst(e.v, vars)))
		}
	}
	if g.rawq != "" {
		qs = append(qs, g.rawq)
	}
	r.Query = strings.Join(qs, "&")
	for _, e := range g.header {
		if strings.EqualFold(e.k, "Host") {
			r.Host = subst(e.v, vars)
			continue
		}
		r.Header = append(r.Header, [2]string{e.k, subst(e.v, vars)})
	}
	body := subst(g.body, vars)
	if body != "" || g.method == "PUT" || g.method == "POST" {
		r.Body = []byte(body)
	}
	switch g.lenMode {
	case "missing":
		r.NoLength = true
	case "negative":
		r.RawLen = "-1"
	case "nonnumeric":
		r.RawLen = "ten"
	case "plus1":
		r.DeclLen = ptr64(int64(len(body) + 1))
	case "huge":
		r.DeclLen = ptr64(9223372036854775807)
	}
	return r
}

func (g gReq) String() string {
	var q []string
	for _, e := range g.query {
		if e.v == "\x00" {
			q = append(q, e.k)
		} else {
			q = append(q, e.k+"="+e.v)
		}
	}
	var h []string
	for _, e := range g.header {
		h = append(h, e.k+":"+clip(e.v, 60))
	}
	s := g.method + " " + g.path
	if len(q) > 0 {
		s += "?" + strings.Join(q, "&")
	}
	if len(h) > 0 {
		s += " {" + strings.Join(h, ", ") + "}"
	}
	if g.body != "" {
		s += " body=" + strconv.Quote(clip(g.body, 80))
	}
	if g.lenMode != "" {
		s += " len=" + g.lenMode
	}
	if g.rawq != "" {
		s += " rawq=" + g.rawq
	}
	return s
}

const (
	xmlVerEnabled = "<VersioningConfiguration><Status>Enabled</Status></VersioningConfiguration>"
	xmlDelete     = "<Delete><Object><Key>k</Key></Object><Object><Key>nokey</Key></Object></Delete>"
	xmlComplete   = "<CompleteMultipartUpload><Part><PartNumber>1</PartNumber><ETag>$PETAG1</ETag></Part><Part><PartNumber>5</PartNumber><ETag>$PETAG5</ETag></Part></CompleteMultipartUpload>"
)

func c09Routes() []gReq {
	form, _ := formBody("formkey", []byte("form-body"), nil)
	chunked := string(drv.EncodeChunked([]byte("hello"), []int{2, 3}))
	return []gReq{
		{route: "list-buckets", method: "GET", path: "/"},
		{route: "create-bucket", method: "PUT", path: "/newbucket"},
		{route: "head-bucket", method: "HEAD", path: "/aaa"},
		{route: "delete-bucket", method: "DELETE", path: "/aaa"},
		{route: "list-v1", method: "GET", path: "/aaa", query: []kv{{"prefix", "d"}, {"delimiter", "/"}, {"max-keys", "1"}}},
		{route: "list-v2", method: "GET", path: "/aaa", query: []kv{{"list-type", "2"}, {"max-keys", "1"}}},
		{route: "location", method: "GET", path: "/aaa", query: []kv{{"location", "\x00"}}},
		{route: "get-versioning", method: "GET", path: "/aaa", query: []kv{{"versioning", "\x00"}}},
		{route: "put-versioning", method: "PUT", path: "/aaa", query: []kv{{"versioning", "\x00"}}, body: xmlVerEnabled},
		{route: "list-versions", method: "GET", path: "/aaa", query: []kv{{"versions", "\x00"}, {"max-keys", "2"}}},
		{route: "list-uploads", method: "GET", path: "/aaa", query: []kv{{"uploads", "\x00"}, {"max-uploads", "1"}}},
		{route: "multi-delete", method: "POST", path: "/aaa", query: []kv{{"delete", "\x00"}}, body: xmlDelete},
		{route: "form-upload", method: "POST", path: "/aaa", header: []kv{{"Content-Type", "multipart/form-data; boundary=verifboundary"}}, body: string(form)},
		{route: "get-object", method: "GET", path: "/aaa/k"},
		{route: "head-object", method: "HEAD", path: "/aaa/k"},
		{route: "put-object", method: "PUT", path: "/aaa/k", body: "new-body", header: []kv{{"x-amz-meta-a", "1"}}},
		// ... announced with Expect: 100-continue (the client waits for the go-ahead or a final answer)
		{route: "put-object-expect", method: "PUT", path: "/aaa/k", body: "new-body", header: []kv{{"Expect", "100-continue"}}},
		{route: "upload-part-expect", method: "PUT", path: "/aaa/a", query: []kv{{"uploadId", "$UID"}, {"partNumber", "2"}}, body: "part-two", header: []kv{{"Expect", "100-continue"}}},
		{route: "copy-object", method: "PUT", path: "/aaa/k2", header: []kv{{"X-Amz-Copy-Source", "/aaa/k"}}},
		{route: "delete-object", method: "DELETE", path: "/aaa/k"},
		{route: "get-version", method: "GET", path: "/aaa/k", query: []kv{{"versionId", "$VID"}}},
		{route: "head-version", method: "HEAD", path: "/aaa/k", query: []kv{{"versionId", "$VID"}}},
		{route: "delete-version", method: "DELETE", path: "/aaa/k", query: []kv{{"versionId", "$VID"}}},
		{route: "initiate", method: "POST", path: "/aaa/a", query: []kv{{"uploads", "\x00"}}},
		{route: "upload-part", method: "PUT", path: "/aaa/a", query: []kv{{"uploadId", "$UID"}, {"partNumber", "2"}}, body: "part-two"},
		{route: "list-parts", method: "GET", path: "/aaa/a", query: []kv{{"uploadId", "$UID"}, {"max-parts", "1"}}},
		{route: "complete", method: "POST", path: "/aaa/a", query: []kv{{"uploadId", "$UID"}}, body: xmlComplete},
		{route: "abort", method: "DELETE", path: "/aaa/a", query: []kv{{"uploadId", "$UID"}}},
		{route: "put-streaming", method: "PUT", path: "/aaa/s", header: []kv{{"X-Amz-Content-Sha256", "STREAMING-AWS4-HMAC-SHA256-PAYLOAD"}, {"X-Amz-Decoded-Content-Length", "5"}}, body: chunked},
		{route: "cors-preflight", method: "OPTIONS", path: "/aaa/k", header: []kv{{"Origin", "http://x"}, {"Access-Control-Request-Method", "PUT"}}},
	}
}

// c09Weird: generic hostile values tried on every query-parameter and header slot.
func c09Weird() []deviation {
	vals := []string{" ", "0", "-0", "+1", " 1", "1 ", "01", "0x1", "1e3", "9223372036854775807", "-9223372036854775808", "-9223372036854775809", "NaN", "true",
		strings.Repeat("9", 400), strings.Repeat("k", 5000), "\x00", "%", "%zz", "../..", "ü", "a\r\nb", "\"", "<x>&amp;", "$UID", "$VID", "k", "/"}
	slots := []string{"q:uploadId", "q:partNumber", "q:versionId", "q:max-keys", "q:max-uploads", "q:max-parts", "q:marker", "q:continuation-token", "q:start-after",
		"q:prefix", "q:delimiter", "q:key-marker", "q:version-id-marker", "q:upload-id-marker", "q:part-number-marker", "q:list-type", "q:encoding-type",
		"h:Range", "h:X-Amz-Copy-Source", "h:Content-MD5", "h:X-Amz-Decoded-Content-Length", "h:If-None-Match", "h:If-Modified-Since", "h:x-amz-date", "h:Content-Type", "h:x-amz-meta-a", "h:Expect"}
	var m []deviation
	for _, s := range slots {
		for _, v := range vals {
			if strings.HasPrefix(s, "h:") && strings.ContainsAny(v, "\x00\r\n") {
				continue // net/http does not deliver such a header value to a handler
			}
			m = append(m, deviation{s, v, "weird:" + clip(strconv.Quote(v), 24)})
		}
	}
	return m
}

func c09Menu() []deviation {
	var m []deviation
	add := func(slot string, vals ...string) {
		for _, v := range vals {
			d := v
			if v == "\x01" {
				d = "<absent>"
			} else if v == "\x00" {
				d = "<flag>"
			}
			m = append(m, deviation{slot, v, clip(d, 40)})
		}
	}
	add("method", "GET", "PUT", "POST", "DELETE", "HEAD", "OPTIONS", "PATCH", "get")
	add("path", "/", "//aaa//k/", "/aaa", "/aaa/", "/aaa/k", "/aaa/nokey", "/nosuch", "/nosuch/k", "/aaa/a", "/aaa/b/c", "/aaa/"+strings.Repeat("K", 1025), "/aaa/d/", "/.", "/aaa/k/../u", "/aaa/d")
	add("q:uploadId", "$UID", "999", "", "$UID2", "\x01")
	add("q:partNumber", "1", "0", "-1", "10001", "9223372036854775808", "x", "", "\x01")
	add("q:versionId", "$VID", "$VIDOLD", "$VIDMARK", "null", "bogus", "")
	for _, p := range []string{"q:max-keys", "q:max-uploads", "q:max-parts"} {
		add(p, "-1", "0", "1", "x", "1000000000000000000000000000000")
	}
	add("q:marker", "k", "zzz", "", "d/x")
	add("q:continuation-token", base64.URLEncoding.EncodeToString([]byte("k")), "!!!", "")
	add("q:start-after", "k", "zzz")
	add("q:prefix", "d", "d/", "/", "nomatch", "", "lead/", "lead/q", "/lead", "//", "/l", "e")
	add("q:delimiter", "/", "d", "", "/le", "/l", "/lea", "/lead", "ea", "content", "\xff")
	add("q:key-marker", "k", "a", "zzz", "", "b/c")
	add("q:version-id-marker", "", "$VID", "$VIDOLD", "bogus")
	add("q:upload-id-marker", "$UID", "$UID2", "bogus")
	add("q:part-number-marker", "0", "1", "3", "99", "-1", "9223372036854775808", "x")
	add("q:list-type", "2", "1", "x")
	add("q:fetch-owner", "\x00")
	for _, f := range []string{"q:uploads", "q:versioning", "q:versions", "q:delete", "q:location"} {
		add(f, "\x00", "\x01")
	}
	add("h:Range", "bytes=0-0", "bytes=5-", "bytes=-1", "bytes=0-9223372036854775807", "bytes=9-1", "bytes=a", "bytes=0-0,1-1", "bytes=99-")
	add("h:X-Amz-Copy-Source", "nosuch", "/", "b", "/aaa/k?versionId=x", "%zz", "/aaa/k", "/aaa", "aaa/k", "/nosuch/k", "/aaa/%zz", "/aaa/nokey", "/bbb/u", "", "/aaa/k2", "//")
	add("h:Content-MD5", "XrY7u+Ae7tCTyyK7j1rNww==", "!!!", "", "AAAA")
	add("len", "missing", "negative", "nonnumeric", "plus1", "huge")
	add("rawq", "x-id=%zz", "%", "a=1;b=2", "=&&=")
	add("h:X-Amz-Content-Sha256", "STREAMING-AWS4-HMAC-SHA256-PAYLOAD", "UNSIGNED-PAYLOAD")
	add("h:X-Amz-Decoded-Content-Length", "5", "x", "-1", "\x01", "6")
	add("h:If-None-Match", "$ETAGK", "*", "\"x\"")
	add("h:If-Modified-Since", "Mon, 02 Jan 2040 15:04:05 GMT", "Mon, 02 Jan 2006 15:04:05 GMT", "garbage")
	add("h:x-minio-force-delete", "true")
	add("h:Expect", "100-continue")
	add("h:x-amz-date", "20000101T000000Z", "garbage", "20200102T030405Z")
	add("h:Content-Type", "multipart/form-data; boundary=verifboundary", "multipart/form-data", "text/plain")
	add("h:Host", "aaa.s3.test", "nosuch.s3.test", "s3.test", "a.b.s3.test", "")
	formNoKey := "--verifboundary\r\nContent-Disposition: form-data; name=\"file\"; filename=\"f\"\r\n\r\nx\r\n--verifboundary--\r\n"
	formTwo, _ := formBody("formkey", []byte("x"), nil)
	formTwoS := strings.Replace(string(formTwo), "--verifboundary--", "--verifboundary\r\nContent-Disposition: form-data; name=\"file\"; filename=\"g\"\r\n\r\ny\r\n--verifboundary--", 1)
	// form fields that become metadata: a name with a NUL byte (RFC 2231 encoded parameter), values with control characters
	formField := func(disp, val string) string {
		return "--verifboundary\r\nContent-Disposition: form-data; name=\"key\"\r\n\r\nformkey\r\n--verifboundary\r\nContent-Disposition: form-data; " + disp + "\r\n\r\n" + val +
			"\r\n--verifboundary\r\nContent-Disposition: form-data; name=\"file\"; filename=\"f\"\r\n\r\nform-body\r\n--verifboundary--\r\n"
	}
	formNulName := formField("name*=utf-8''X-Amz-Meta-a%00b", "v")
	formCtlValue := formField("name=\"X-Amz-Meta-Note\"", "a\x01b")
	formNLValue := formField("name=\"Content-Disposition\"", "x\r\nX-Injected: 1")
	formCtlName := formField("name*=utf-8''X-Amz-Meta-a%0d%0aX-Injected", "v")
	var many strings.Builder
	many.WriteString("<CompleteMultipartUpload>")
	for i := 1; i <= 10000; i++ {
		fmt.Fprintf(&many, "<Part><PartNumber>%d</PartNumber><ETag>\"x\"</ETag></Part>", i)
	}
	many.WriteString("</CompleteMultipartUpload>")
	add("body", "", "<", xmlDelete, xmlComplete, xmlVerEnabled,
		"<CompleteMultipartUpload><Part><PartNumber>-1</PartNumber><ETag>$PETAG1</ETag></Part></CompleteMultipartUpload>",
		"<CompleteMultipartUpload><Part><PartNumber>0</PartNumber><ETag>x</ETag></Part></CompleteMultipartUpload>",
		"<CompleteMultipartUpload><Part><PartNumber>1000000000</PartNumber><ETag>x</ETag></Part></CompleteMultipartUpload>",
		"<CompleteMultipartUpload><Part><PartNumber>99999999999999999999</PartNumber><ETag>x</ETag></Part></CompleteMultipartUpload>",
		"<CompleteMultipartUpload></CompleteMultipartUpload>",
		"<CompleteMultipartUpload><Part><PartNumber>5</PartNumber><ETag>$PETAG5</ETag></Part><Part><PartNumber>1</PartNumber><ETag>$PETAG1</ETag></Part></CompleteMultipartUpload>",
		many.String(),
		"<Delete><Object><Key>k</Key>", "<Foo/>", "<Delete><Object><Key>k</Key><VersionId>$VID</VersionId></Object><Object><Key>k</Key><VersionId>bogus</VersionId></Object></Delete>",
		"<Delete><Quiet>maybe</Quiet></Delete>", "<Delete></Delete>",
		"<VersioningConfiguration><Status>Suspended</Status></VersioningConfiguration>", "<VersioningConfiguration><Status>Sometimes</Status></VersioningConfiguration>",
		"<VersioningConfiguration><Status>Enabled</Status><MfaDelete>Enabled</MfaDelete></VersioningConfiguration>", "<VersioningConfiguration/>",
		formNoKey, formTwoS, formNulName, formCtlValue, formNLValue, formCtlName, strings.Repeat("\xff\x00garbage", 500),
		// aws-chunked streams that end early: inside a chunk, inside a header, before the terminator
		"10;chunk-signature="+strings.Repeat("0", 64)+"\r\nhello",
		"5;chunk-signature="+strings.Repeat("0", 64)+"\r\nhello",
		"5;chunk-signature="+strings.Repeat("0", 64)+"\r\nhello\r\n0;chunk-sig",
		"5;chunk-sig", "ffffffffffffffff;chunk-signature="+strings.Repeat("0", 64)+"\r\nhello", "-5;chunk-signature="+strings.Repeat("0", 64)+"\r\nhello")
	return m
}

// documented status per code
var c09CodeStatus = map[string][]int{
	"BucketAlreadyExists": {409}, "BucketNotEmpty": {409}, "BadDigest": {400}, "IllegalVersioningConfigurationException": {400},
	"IncompleteBody": {400}, "IncorrectNumberOfFilesInPostRequest": {400}, "InlineDataTooLarge": {400}, "InvalidArgument": {400},
	"InvalidBucketName": {400}, "InvalidDigest": {400}, "InvalidPart": {400}, "InvalidPartOrder": {400}, "InvalidToken": {400},
	"InvalidURI": {400}, "KeyTooLongError": {400}, "MetadataTooLarge": {400}, "MethodNotAllowed": {405}, "MalformedPOSTRequest": {400},
	"MalformedXML": {400}, "TooManyBuckets": {400}, "RequestTimeTooSkewed": {403}, "InvalidRange": {416}, "NoSuchBucket": {404},
	"NoSuchKey": {404}, "NoSuchUpload": {404}, "NoSuchVersion": {404}, "NotImplemented": {501}, "NotModified": {304},
	"MissingContentLength": {411}, "InternalError": {500},
}

type c09State struct {
	name  string
	kinds []drv.Kind
	setup func(w *drv.World, vars map[string]string) error
}

func must200(r drv.Resp, what string) error {
	if r.Panic != "" || r.Status >= 300 {
		return fmt.Errorf("setup %s: %s", what, r.Short())
	}
	return nil
}

func c09SetupBase(w *drv.World, vars map[string]string) error {
	if !w.Cfg.Kind.IsSingle() {
		for _, b := range []string{"aaa", "bbb"} {
			if err := must200(w.Do(drv.Req{Method: "PUT", Path: "/" + b}), "bucket"); err != nil {
				return err
			}
		}
		if err := must200(w.Do(drv.Req{Method: "PUT", Path: "/bbb/u", Body: []byte("untouched"), Header: drv.H("x-amz-meta-u", "1")}), "bbb/u"); err != nil {
			return err
		}
	}
	return nil
}

func c09SetupObjects(w *drv.World, vars map[string]string) error {
	if err := c09SetupBase(w, vars); err != nil {
		return err
	}
	for _, k := range []string{"k", "d/x"} {
		if err := must200(w.Do(drv.Req{Method: "PUT", Path: "/aaa/" + k, Body: []byte("content-of-" + k), Header: drv.H("x-amz-meta-a", "orig", "Content-Type", "text/plain")}), k); err != nil {
			return err
		}
	}
	vars["ETAGK"] = drv.ETagOf([]byte("content-of-k"))
	// a key that starts with the delimiter (refused by the fs backends, stored by mem/bolt)
	w.Do(drv.Req{Method: "PUT", Path: "/aaa//lead", Body: []byte("lead")})
	return nil
}

func c09SetupVersioned(suspend bool) func(w *drv.World, vars map[string]string) error {
	return func(w *drv.World, vars map[string]string) error {
		if err := c09SetupObjects(w, vars); err != nil {
			return err
		}
		if err := must200(w.Do(drv.Req{Method: "PUT", Path: "/aaa", Query: "versioning", Body: []byte(xmlVerEnabled)}), "versioning"); err != nil {
			return err
		}
		r1 := w.Do(drv.Req{Method: "PUT", Path: "/aaa/k", Body: []byte("k-v1")})
		r2 := w.Do(drv.Req{Method: "PUT", Path: "/aaa/k", Body: []byte("k-v2")})
		vars["VIDOLD"], vars["VID"] = r1.Header.Get("x-amz-version-id"), r2.Header.Get("x-amz-version-id")
		w.Do(drv.Req{Method: "PUT", Path: "/aaa/j", Body: []byte("j-v1")})
		rd := w.Do(drv.Req{Method: "DELETE", Path: "/aaa/d/x"})
		vars["VIDMARK"] = rd.Header.Get("x-amz-version-id")
		if vars["VID"] == "" || vars["VIDOLD"] == "" {
			return fmt.Errorf("setup: no version ids")
		}
		if suspend {
			return must200(w.Do(drv.Req{Method: "PUT", Path: "/aaa", Query: "versioning", Body: []byte("<VersioningConfiguration><Status>Suspended</Status></VersioningConfiguration>")}), "suspend")
		}
		return nil
	}
}

func c09SetupUploads(w *drv.World, vars map[string]string) error {
	if err := c09SetupObjects(w, vars); err != nil {
		return err
	}
	r := w.Do(drv.Req{Method: "POST", Path: "/aaa/a", Query: "uploads", Header: drv.H("x-amz-meta-up", "1")})
	if n := r.XML(); n != nil {
		vars["UID"] = n.T("UploadId")
	}
	r = w.Do(drv.Req{Method: "POST", Path: "/aaa/b/c", Query: "uploads"})
	if n := r.XML(); n != nil {
		vars["UID2"] = n.T("UploadId")
	}
	if vars["UID"] == "" || vars["UID2"] == "" {
		return fmt.Errorf("setup: no upload ids")
	}
	for _, p := range []struct {
		n    string
		body string
	}{{"1", "part-one"}, {"5", "part-five"}} {
		if err := must200(w.Do(drv.Req{Method: "PUT", Path: "/aaa/a", Query: drv.Q("uploadId", vars["UID"], "partNumber", p.n), Body: []byte(p.body)}), "part"); err != nil {
			return err
		}
	}
	vars["PETAG1"], vars["PETAG5"] = drv.ETagOf([]byte("part-one")), drv.ETagOf([]byte("part-five"))
	return nil
}

type c09Plan struct {
	cfg   drv.Config
	state c09State
	skew  bool
}

func c09Plans(c *engine.Ctx) []c09Plan {
	empty := c09State{name: "empty", setup: func(w *drv.World, v map[string]string) error { return nil }}
	objects := c09State{name: "objects", setup: c09SetupObjects}
	versioned := c09State{name: "versioned", setup: c09SetupVersioned(false)}
	suspended := c09State{name: "suspended", setup: c09SetupVersioned(true)}
	uploads := c09State{name: "uploads", setup: c09SetupUploads}
	uploadsClosed := c09State{name: "uploads-closed", setup: func(w *drv.World, vars map[string]string) error {
		if err := c09SetupUploads(w, vars); err != nil {
			return err
		}
		// an aborted and a completed upload on keys that sort after the pending ones
		for _, k := range []string{"y", "z"} {
			r := w.Do(drv.Req{Method: "POST", Path: "/aaa/" + k, Query: "uploads"})
			n := r.XML()
			if n == nil {
				return fmt.Errorf("setup: initiate %s: %s", k, r.Short())
			}
			id := n.T("UploadId")
			if k == "z" {
				w.Do(drv.Req{Method: "DELETE", Path: "/aaa/z", Query: drv.Q("uploadId", id)})
			} else {
				w.Do(drv.Req{Method: "PUT", Path: "/aaa/y", Query: drv.Q("uploadId", id, "partNumber", "1"), Body: []byte("yy")})
				w.Do(drv.Req{Method: "POST", Path: "/aaa/y", Query: drv.Q("uploadId", id), Body: []byte("<CompleteMultipartUpload><Part><PartNumber>1</PartNumber><ETag>" + drv.ETagOf([]byte("yy")) + "</ETag></Part></CompleteMultipartUpload>")})
			}
		}
		return nil
	}}
	// every version of a key deleted by id, the archived one first: the key's entry has
	// gone through the "history emptied without a promotion" path of the memory backend
	versionsGone := c09State{name: "versions-deleted-by-id", setup: func(w *drv.World, vars map[string]string) error {
		if err := c09SetupVersioned(false)(w, vars); err != nil {
			return err
		}
		r1 := w.Do(drv.Req{Method: "PUT", Path: "/aaa/g", Body: []byte("g-v1")})
		r2 := w.Do(drv.Req{Method: "PUT", Path: "/aaa/g", Body: []byte("g-v2")})
		for _, r := range []drv.Resp{r1, r2} {
			if id := r.Header.Get("x-amz-version-id"); id != "" {
				w.Do(drv.Req{Method: "DELETE", Path: "/aaa/g", Query: drv.Q("versionId", id)})
			}
		}
		return nil
	}}
	var plans []c09Plan
	kinds := drv.MemFsKinds
	if !quick(c) {
		kinds = drv.AllKinds
	}
	for _, k := range kinds {
		states := []c09State{empty, objects, uploads, uploadsClosed}
		if k == drv.Mem {
			states = append(states, versioned, suspended, versionsGone)
		}
		for _, st := range states {
			plans = append(plans, c09Plan{cfg: drv.Config{Kind: k}, state: st})
		}
	}
	plans = append(plans,
		c09Plan{cfg: drv.Config{Kind: drv.Mem, HostBucket: true}, state: objects},
		c09Plan{cfg: drv.Config{Kind: drv.Mem, HostBases: []string{"s3.test"}}, state: uploads},
		c09Plan{cfg: drv.Config{Kind: drv.Mem, AutoBucket: true}, state: empty},
		c09Plan{cfg: drv.Config{Kind: drv.MultiMem, AutoBucket: true}, state: objects},
		c09Plan{cfg: drv.Config{Kind: drv.Mem, NoVersioning: true}, state: objects},
		c09Plan{cfg: drv.Config{Kind: drv.Mem, TimeSkew: true}, state: objects},
		c09Plan{cfg: drv.Config{Kind: drv.Bolt, FailOnUnimplPage: true}, state: objects},
		c09Plan{cfg: drv.Config{Kind: drv.MultiDir}, state: objects},
		c09Plan{cfg: drv.Config{Kind: drv.SingleDir}, state: uploads},
	)
	return plans
}

// relevant slots for 2-deviation pairs: slots the base request uses plus the routing-relevant ones.
func relevantSlot(base gReq, slot string) bool {
	switch slot {
	case "method", "path", "q:uploadId", "q:versionId", "q:uploads", "q:versions", "q:versioning", "q:delete", "q:location", "len", "rawq", "body", "h:X-Amz-Copy-Source", "h:Expect":
		return true
	}
	if strings.HasPrefix(slot, "q:") {
		for _, e := range base.query {
			if e.k == slot[2:] {
				return true
			}
		}
	}
	if strings.HasPrefix(slot, "h:") {
		for _, e := range base.header {
			if strings.EqualFold(e.k, slot[2:]) {
				return true
			}
		}
	}
	return false
}

func doWithWatchdog(w *drv.World, r drv.Req) (drv.Resp, bool) {
	ch := make(chan drv.Resp, 1)
	go func() { ch <- w.Do(r) }()
	select {
	case resp := <-ch:
		return resp, true
	case <-time.After(60 * time.Second):
		return drv.Resp{}, false
	}
}

func runC09(c *engine.Ctx) {
	c.Rule = "case = (backend/options, reachable start state, base request of one of 30 routes (two of them announced with Expect: 100-continue), <= k deviations where a deviation sets one slot (method, path shape, query parameter, raw query text, header, declared length, body) to a value of the finite menu); oracle: no panic, the call returns, response is a success or an error status whose body is empty or an <Error><Code> document with the status documented for that code, and afterwards a canary sequence (put/get/list/delete on the same and on another bucket, a part added to each listed pending upload) behaves and untouched data is unchanged; plus, on the fs backends, every route x state with exactly one failing storage operation at every position (no panic, returns, well-formed error, canary afterwards); distinct_nontrivial = distinct (status, code) outcomes x route"
	c.Assumptions = append(c.Assumptions, "deviation bound k=1 on every route and state (quick) / k=2 on the routing-relevant and route-specific slots (thorough, and quick on the memory backend's stateful routes)", "a 60 s watchdog per request stands in for 'never blocks' (normal latency is ~10 us)")
	routes := c09Routes()
	menu := c09Menu()
	weird := c09Weird()
	plans := c09Plans(c)
	type job struct {
		plan c09Plan
		base gReq
		devs []deviation
	}
	var jobs []job
	for _, pl := range plans {
		for _, base := range routes {
			jobs = append(jobs, job{pl, base, nil})
			for _, d := range menu {
				jobs = append(jobs, job{pl, base, []deviation{d}})
			}
			if !quick(c) || (worldName(pl.cfg) == "mem" && (pl.state.name == "versioned" || pl.state.name == "uploads")) || (pl.cfg.Kind == drv.Bolt && pl.state.name == "objects" && !pl.cfg.FailOnUnimplPage) {
				for _, d := range weird {
					jobs = append(jobs, job{pl, base, []deviation{d}})
				}
			}
			pairs := !quick(c) || (pl.cfg.Kind == drv.Mem && !pl.cfg.HostBucket && len(pl.cfg.HostBases) == 0 && !pl.cfg.AutoBucket && !pl.cfg.NoVersioning && !pl.cfg.TimeSkew &&
				(pl.state.name == "versioned" || pl.state.name == "uploads"))
			if pairs {
				var rel []deviation
				for _, d := range menu {
					if relevantSlot(base, d.slot) {
						rel = append(rel, d)
					}
				}
				for i := 0; i < len(rel); i++ {
					for j := i + 1; j < len(rel); j++ {
						if rel[i].slot == rel[j].slot {
							continue
						}
						if quick(c) && len(rel[i].val) > 2000 {
							continue
						}
						jobs = append(jobs, job{pl, base, []deviation{rel[i], rel[j]}})
					}
				}
			}
		}
	}
	c.Bounds["routes"] = len(routes)
	c.Bounds["menu_values"] = len(menu)
	c.Bounds["generic_hostile_values"] = len(weird)
	c.Bounds["configurations"] = len(plans)
	c.Bounds["cases"] = len(jobs)
	var omu sync.Mutex
	outcomes := map[string]int{}
	engine.ParallelFor(len(jobs), func(_, ji int) {
		if c.Expired() {
			return
		}
		jb := jobs[ji]
		w, err := drv.NewWorld(jb.plan.cfg)
		if err != nil {
			engine.HarnessError("C09: %v", err)
		}
		defer w.Close()
		vars := map[string]string{"UID": "17", "UID2": "18", "VID": "3/NOVERSION", "VIDOLD": "3/NOVERSIONOLD", "VIDMARK": "3/NOMARK", "ETAGK": "\"none\"", "PETAG1": "\"p1\"", "PETAG5": "\"p5\""}
		if err := jb.plan.state.setup(w, vars); err != nil {
			engine.HarnessError("C09 setup %s/%s: %v", worldName(jb.plan.cfg), jb.plan.state.name, err)
		}
		g := jb.base
		var dd []string
		for _, d := range jb.devs {
			g = g.apply(d)
			dd = append(dd, d.String())
		}
		wk := worldName(jb.plan.cfg)
		hist := []string{wk, "state=" + jb.plan.state.name, "base=" + jb.base.route, "deviations=" + strings.Join(dd, " ; "), g.String()}
		if f := os.Getenv("VERIF_ONLY"); f != "" && !strings.Contains(strings.Join(hist, " "), f) {
			return
		}
		if os.Getenv("VERIF_TRACE") != "" {
			fmt.Fprintf(os.Stderr, "TRACE %v\n", hist)
		}
		untouchedBefore := ""
		if !jb.plan.cfg.Kind.IsSingle() && jb.plan.state.name != "empty" {
			untouchedBefore = c09Untouched(w)
		}
		resp, returned := doWithWatchdog(w, g.build(vars))
		c.Add(0, 1, 1, 1)
		c.Count(wk, "requests", 1)
		class := "any"
		report := func(sigv, msg string) {
			c.Report(&engine.Violation{Sig: sigv, World: wk, History: hist, Msg: msg + "\n  request: " + g.String()})
		}
		if !returned {
			report(sig("C09", class, jb.base.route, "hang"), "handler did not return within 60 s")
			return
		}
		if resp.Panic != "" {
			fr := drv.PanicFrame(resp.Panic)
			if strings.HasPrefix(fr, "backend/") {
				class = backendClass(jb.plan.cfg.Kind)
			}
			report(sig("C09", class, "panic@"+fr), "handler panicked: "+firstLine(resp.Panic))
			return
		}
		if resp.ClosedUnreadBody {
			report(sig("C09", class, jb.base.route, "closes-unread-body-before-answering"), "the request said Expect: 100-continue and the handler closed its body, unread, before writing any answer ("+resp.Short()+" came afterwards): with net/http that Close waits for the body while the client waits for the answer")
			return
		}
		if hn, hv, bad := badHeader(resp.Header); bad {
			report(sig("C09", class, jb.base.route, "malformed-response-header"), fmt.Sprintf("response header %q: %q cannot be sent over HTTP", hn, hv))
			return
		}
		code := resp.ErrCode()
		omu.Lock()
		outcomes[fmt.Sprintf("%s|%d|%s", jb.base.route, resp.Status, code)]++
		omu.Unlock()
		if resp.Status >= 400 || resp.Status == 304 {
			if len(resp.Body) > 0 {
				n, perr := drv.ParseXML(resp.Body)
				if perr != nil || n.Name != "Error" || n.T("Code") == "" {
					report(sig("C09", class, "malformed-error-body", strconv.Itoa(resp.Status), sanitize(string(resp.Body), 24)), fmt.Sprintf("status %d with a body that is not an S3 error document: %q", resp.Status, clip(string(resp.Body), 120)))
					return
				}
				sts, ok := c09CodeStatus[code]
				okStatus := false
				for _, s := range sts {
					if s == resp.Status {
						okStatus = true
					}
				}
				if !ok || !okStatus {
					report(sig("C09", class, "code-status-mismatch", code+":"+strconv.Itoa(resp.Status)), fmt.Sprintf("error code %q answered with status %d (documented: %v)", code, resp.Status, sts))
					return
				}
			}
		} else if resp.Status < 200 || resp.Status >= 400 {
			report(sig("C09", class, jb.base.route, "odd-status", strconv.Itoa(resp.Status)), fmt.Sprintf("status %d", resp.Status))
			return
		}
		// canary
		if f, msg := c09Canary(w, jb.plan, untouchedBefore); f != "" {
			cls := class
			if strings.HasPrefix(f, "panic@backend/") {
				cls = backendClass(jb.plan.cfg.Kind)
			}
			report(sig("C09", cls, "canary", f), "after the request (answered "+resp.Short()+") the canary failed: "+msg)
		}
	})
	c.Add(int64(len(jobs)), 0, 0, 0)
	if c.Replay == nil {
		c09StorageFaults(c)
	}
	for k := range outcomes {
		c.Distinct(k)
	}
	c.AddSample(map[string]interface{}{"base": "complete", "deviations": "body=<PartNumber>-1", "state": "uploads"})
	c.AddSample(map[string]interface{}{"base": "copy-object", "deviations": "h:X-Amz-Copy-Source=nosuch", "state": "objects"})
	c.AddSample(map[string]interface{}{"base": "list-parts", "deviations": "q:part-number-marker=99 ; q:max-parts=1", "state": "uploads"})
}

func c09Untouched(w *drv.World) string {
	v := w.Get("bbb", "u")
	lp := w.List("bbb", "")
	var ks []string
	for _, e := range lp.Entries {
		ks = append(ks, e.Key+"/"+e.ETag)
	}
	return v.String() + "|" + strconv.Itoa(lp.Status) + "|" + strings.Join(ks, ",")
}

func c09Canary(w *drv.World, pl c09Plan, untouchedBefore string) (string, string) {
	do := func(r drv.Req) (drv.Resp, string) {
		resp, ok := doWithWatchdog(w, r)
		if !ok {
			return resp, "hang"
		}
		if resp.Panic != "" {
			return resp, "panic@" + drv.PanicFrame(resp.Panic)
		}
		return resp, ""
	}
	host := ""
	pfx := func(b string) string { return "/" + b }
	buckets := []string{"aaa", "bbb"}
	if pl.cfg.Kind.IsSingle() {
		buckets = []string{"aaa"}
	}
	for _, b := range buckets {
		hr, f := do(drv.Req{Method: "HEAD", Path: "/" + b, Host: host})
		if f != "" {
			return f, "HEAD bucket " + b
		}
		exists := hr.Status == 200
		body := []byte("canary-" + b)
		pr, f := do(drv.Req{Method: "PUT", Path: pfx(b) + "/canary", Body: body, Host: host})
		if f != "" {
			return f, "PUT canary in " + b
		}
		if !exists && !pl.cfg.AutoBucket {
			if pr.Status != 404 {
				return "put-on-missing-bucket", fmt.Sprintf("PUT into missing bucket %s answered %s", b, pr.Short())
			}
			continue
		}
		if pr.Status != 200 {
			return "put", fmt.Sprintf("PUT canary in %s answered %s", b, pr.Short())
		}
		gr, f := do(drv.Req{Method: "GET", Path: pfx(b) + "/canary", Host: host})
		if f != "" {
			return f, "GET canary in " + b
		}
		if gr.Status != 200 || string(gr.Body) != string(body) {
			return "get", fmt.Sprintf("GET canary in %s answered %s body=%q", b, gr.Short(), clip(string(gr.Body), 40))
		}
		lr, f := do(drv.Req{Method: "GET", Path: "/" + b, Host: host})
		if f != "" {
			return f, "LIST " + b
		}
		lp := drv.ParseList(lr)
		found := false
		for i, e := range lp.Entries {
			if e.Key == "canary" {
				found = true
			}
			// whatever the request stored: a key the bucket lists is served without a server
			// error and with headers that can go over the wire
			if i < 12 && e.Key != "canary" && !strings.ContainsAny(e.Key, "?#%") && !strings.HasSuffix(e.Key, "/") {
				for _, m := range []string{"GET", "HEAD"} {
					or, f := do(drv.Req{Method: m, Path: pfx(b) + "/" + e.Key, Host: host})
					if f != "" {
						return f, m + " of listed key " + strconv.Quote(e.Key)
					}
					if or.Status >= 500 {
						return "listed-key-server-error", fmt.Sprintf("%s of listed key %q in %s answers %s", m, e.Key, b, or.Short())
					}
					if hn, hv, bad := badHeader(or.Header); bad {
						return "listed-key-malformed-header", fmt.Sprintf("%s of listed key %q in %s: response header %q: %q cannot be sent over HTTP", m, e.Key, b, hn, hv)
					}
				}
			}
		}
		if pl.cfg.FailOnUnimplPage && pl.cfg.Kind != drv.Mem && lp.Status == 501 && lp.Code == "NotImplemented" {
			// configured to refuse listings it cannot paginate
		} else if lp.Status != 200 || !found {
			return "list", fmt.Sprintf("LIST %s answered %d %s; canary listed=%v", b, lp.Status, lp.Code, found)
		}
		dr, f := do(drv.Req{Method: "DELETE", Path: pfx(b) + "/canary", Host: host})
		if f != "" {
			return f, "DELETE canary in " + b
		}
		if dr.Status != 204 {
			return "delete", fmt.Sprintf("DELETE canary in %s answered %s", b, dr.Short())
		}
	}
	// pending uploads stay usable: a part can be added to each (whatever the request was, it
	// has returned, so nothing of an upload may still be held)
	ur, f := do(drv.Req{Method: "GET", Path: "/aaa", Query: "uploads", Host: host})
	if f != "" {
		return f, "list of pending uploads"
	}
	if ur.Status == 200 {
		probed := 0
		for _, u := range drv.ParseUploads(ur).Uploads {
			if probed == 2 || u.Key == "" || strings.HasSuffix(u.Key, "/") || strings.Trim(u.Key, "abcdefghijklmnopqrstuvwxyz0123456789/") != "" || strings.Contains(u.Key, "//") {
				continue
			}
			probed++
			pr, f := do(drv.Req{Method: "PUT", Path: "/aaa/" + u.Key, Query: drv.Q("uploadId", u.ID, "partNumber", "9999"), Body: []byte("canary-part"), Host: host})
			if f != "" {
				return f, "upload of a part to the pending upload " + u.ID + " of " + strconv.Quote(u.Key)
			}
			if pr.Status != 200 {
				return "upload-part", fmt.Sprintf("a part for the listed pending upload %s of %q answered %s", u.ID, u.Key, pr.Short())
			}
		}
	}
	if untouchedBefore != "" {
		if after := c09Untouched(w); after != untouchedBefore {
			return "untouched-data-changed", fmt.Sprintf("bucket bbb changed: before %s, after %s", untouchedBefore, after)
		}
	}
	return "", ""
}

func init() { Registry["C09"] = runC09 }

func sanitize(s string, n int) string {
	var b strings.Builder
	for _, r := range s {
		if b.Len() >= n {
			break
		}
		if (r >= 'a' && r <= 'z') || (r >= 'A' && r <= 'Z') || (r >= '0' && r <= '9') {
			b.WriteRune(r)
		} else {
			b.WriteByte('_')
		}
	}
	return b.String()
}

// badHeader reports a response header whose name or value net/http could not put on the wire.
func badHeader(h http.Header) (string, string, bool) {
	for k, vs := range h {
		for _, c := range []byte(k) {
			if c <= ' ' || c >= 0x7f || c == ':' {
				return k, strings.Join(vs, ","), true
			}
		}
		for _, v := range vs {
			for _, c := range []byte(v) {
				if (c < ' ' && c != '\t') || c == 0x7f {
					return k, v, true
				}
			}
		}
	}
	return "", "", false
}
