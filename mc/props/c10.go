package props

import (
	"fmt"
	"path"
	"sort"
	"strings"
	"time"

	"verifmc/drv"
	"verifmc/engine"
)

// C10 — buckets and keys are independent namespaces; internals are not
// addressable (seqmc with a framing oracle: an operation addressed to (b,k)
// may change only entries of b whose canonical key equals canon(k)).

type c10Op struct {
	kind   string // put|get|head|delete|multi|copy-to|copy-from|list|create-bucket|delete-bucket|mp-part|mp-abort|mp-complete|mp-listparts
	bucket string
	key    string
	read   bool
}

func (o c10Op) String() string { return fmt.Sprintf("%s %s %q", o.kind, o.bucket, o.key) }

type c10Sys struct {
	w     *drv.World
	ops   []engine.Op
	depth int
	maxD  int
	seq   int
	cache *c10Snap // snapshot after the last operation (reads leave it valid)

	victimID string      // pending multipart upload of (aaa, "w/y") with one part
	mpOps    []engine.Op // multipart requests that present the victim's upload id under another key (first step only)
}

const c10VictimKey = "w/y"

var c10Buckets = []string{"aaa", "bbb"}

func c10Keys(kind drv.Kind) []string {
	ks := []string{".", "..", "../bbb/x", "../../etc/x", "a/../x", "a//x", "./x", ".hidden", "a\\b", "%2e%2e/x", "..%2fbbb%2fx",
		strings.Repeat("s", 255), strings.Repeat("s", 256), "_meta", "bucket/aaa", ".modtime-resolution", "w_y", "w/y", "x/y", "w", "metadata/aaa/x", "buckets/bbb/x", "x", "X", "x ", "w/y/", "/x", "w/./y", "w/y/../y", "aaa/x", "bbb/x", "w/z/q", "../ccc/x"}
	return ks
}

var c10BucketNames = []string{"aaa", "..", ".", "_meta", "metadata", "buckets", "bbb"}

func newC10Sys(cfg drv.Config, maxD int) (*c10Sys, error) {
	w, err := drv.NewWorld(cfg)
	if err != nil {
		return nil, err
	}
	s := &c10Sys{w: w, maxD: maxD}
	bks := c10Buckets
	if cfg.Kind.IsSingle() {
		bks = []string{"aaa"}
	}
	for _, b := range bks {
		if !cfg.Kind.IsSingle() {
			if r := w.Do(drv.Req{Method: "PUT", Path: "/" + b}); r.Status != 200 {
				return nil, fmt.Errorf("setup: %s", r.Short())
			}
		}
		for _, k := range []string{"x", "w/y"} {
			if r := w.Do(drv.Req{Method: "PUT", Path: "/" + b + "/" + k, Body: []byte("base:" + b + ":" + k), Header: drv.H("x-amz-meta-base", b)}); r.Status != 200 {
				return nil, fmt.Errorf("setup: %s", r.Short())
			}
		}
	}
	// a pending multipart upload that belongs to (aaa, w/y)
	if r := w.Do(drv.Req{Method: "POST", Path: "/aaa/" + c10VictimKey, Query: "uploads"}); r.Status == 200 {
		if n := r.XML(); n != nil {
			s.victimID = n.T("UploadId")
		}
	}
	if s.victimID == "" {
		return nil, fmt.Errorf("setup: initiate failed")
	}
	if r := w.Do(drv.Req{Method: "PUT", Path: "/aaa/" + c10VictimKey, Query: drv.Q("uploadId", s.victimID, "partNumber", "1"), Body: []byte("victim-part")}); r.Status != 200 {
		return nil, fmt.Errorf("setup: upload part: %s", r.Short())
	}
	for _, bn := range []string{"aaa", "bbb"} {
		for _, k := range c10Keys(cfg.Kind) {
			if bn == "bbb" && k != "x" && k != "w/y" && k != "../aaa/w/y" {
				continue
			}
			s.mpOps = append(s.mpOps,
				c10Op{kind: "mp-listparts", bucket: bn, key: k, read: true},
				c10Op{kind: "mp-part", bucket: bn, key: k},
				c10Op{kind: "mp-complete", bucket: bn, key: k},
				c10Op{kind: "mp-abort", bucket: bn, key: k},
			)
		}
	}
	for _, bn := range c10BucketNames {
		if len(cfg.HostBases) > 0 && strings.Contains(bn, ".") {
			// "<bucket>.<base>" with a dot in the bucket is not a single label: such a
			// host falls back to path-style (C16) and would address another bucket
			continue
		}
		for _, k := range c10Keys(cfg.Kind) {
			if bn != "aaa" && bn != "bbb" && k != "x" && k != "../aaa/x" && k != "bucket/aaa" && k != "w/y" && k != "aaa/x" && k != "bbb/x" {
				continue // internal bucket names: a few keys are enough
			}
			if bn == "bbb" && k != "../aaa/x" && k != "x" {
				continue
			}
			s.ops = append(s.ops,
				c10Op{kind: "put", bucket: bn, key: k},
				c10Op{kind: "delete", bucket: bn, key: k},
				c10Op{kind: "get", bucket: bn, key: k, read: true},
				c10Op{kind: "head", bucket: bn, key: k, read: true},
				c10Op{kind: "copy-to", bucket: bn, key: k},
				c10Op{kind: "copy-from", bucket: bn, key: k},
				c10Op{kind: "multi", bucket: bn, key: k},
				c10Op{kind: "form", bucket: bn, key: k},
			)
			if k == "x" || k == "w/z/q" {
				// sub-resource names of bucket operations on an object path
				s.ops = append(s.ops, c10Op{kind: "put-versioning", bucket: bn, key: k}, c10Op{kind: "put-uploads", bucket: bn, key: k})
			}
		}
		s.ops = append(s.ops, c10Op{kind: "list", bucket: bn, key: "", read: true}, c10Op{kind: "list", bucket: bn, key: "../", read: true},
			c10Op{kind: "create-bucket", bucket: bn}, c10Op{kind: "delete-bucket", bucket: bn})
	}
	return s, nil
}

func (s *c10Sys) Close() { s.w.Close() }

func (s *c10Sys) Ops() []engine.Op {
	if s.depth >= 2 && s.maxD > 2 {
		// third step: reads and deletes only
		var out []engine.Op
		for _, o := range s.ops {
			oo := o.(c10Op)
			if oo.read || oo.kind == "delete" {
				out = append(out, o)
			}
		}
		return out
	}
	if s.depth == 0 {
		return append(append([]engine.Op{}, s.mpOps...), s.ops...)
	}
	return s.ops
}

type c10Snap struct {
	buckets []string
	list    map[string]string            // bucket -> list status
	objs    map[string]map[string]string // bucket -> key -> view
	raw     []string
	upload  string            // the victim upload as ListMultipartUploads / ListParts show it
	vers    map[string]string // bucket -> versioning status, where the backend has one
}

func (s *c10Sys) snap() c10Snap {
	sn := c10Snap{list: map[string]string{}, objs: map[string]map[string]string{}, vers: map[string]string{}}
	names, lr := s.w.ListBuckets()
	sn.buckets = names
	if lr.Status != 200 {
		sn.buckets = append(sn.buckets, "LISTBUCKETS:"+lr.Short())
	}
	bks := append([]string{}, c10Buckets...)
	for _, n := range names {
		if !contains(bks, n) {
			bks = append(bks, n)
		}
	}
	if s.w.Cfg.Kind.IsSingle() {
		bks = []string{"aaa"}
	}
	for _, b := range bks {
		lp := s.w.List(b, "")
		sn.list[b] = fmt.Sprintf("%d %s %s", lp.Status, lp.Code, panicSigOf(lp.Panic))
		if vr := s.w.Do(drv.Req{Method: "GET", Path: "/" + b, Query: "versioning"}); vr.Status == 200 {
			if n := vr.XML(); n != nil {
				sn.vers[b] = n.T("Status")
			}
		}
		sn.objs[b] = map[string]string{}
		keys := map[string]bool{"x": true, "w/y": true}
		for _, e := range lp.Entries {
			keys[e.Key] = true
		}
		for k := range keys {
			v := s.w.Get(b, k)
			sn.objs[b][k] = v.String()
		}
		for _, e := range lp.Entries {
			sn.objs[b][e.Key] += fmt.Sprintf(" listed(%s,%d)", e.ETag, e.Size)
		}
	}
	sn.raw = strings.Split(s.w.RawDump(), "\n")
	if s.victimID != "" {
		up := s.w.ListUploads("aaa", "")
		for _, u := range up.Uploads {
			sn.upload += fmt.Sprintf("upload %s id=%s;", u.Key, u.ID)
		}
		pp := s.w.ListParts("aaa", c10VictimKey, s.victimID, "")
		sn.upload += fmt.Sprintf(" parts-of-victim: %d %s", pp.Status, pp.Code)
		for _, p := range pp.Parts {
			sn.upload += fmt.Sprintf(" %d/%d/%s", p.N, p.Size, p.ETag)
		}
	}
	return sn
}

func (sn c10Snap) canonical() string {
	var sb strings.Builder
	fmt.Fprintf(&sb, "%v\n", sn.buckets)
	var bs []string
	for b := range sn.objs {
		bs = append(bs, b)
	}
	sort.Strings(bs)
	for _, b := range bs {
		fmt.Fprintf(&sb, "B %s %s\n", b, sn.list[b])
		var ks []string
		for k := range sn.objs[b] {
			ks = append(ks, k)
		}
		sort.Strings(ks)
		for _, k := range ks {
			fmt.Fprintf(&sb, " %q %s\n", k, sn.objs[b][k])
		}
	}
	sb.WriteString(strings.Join(sn.raw, "\n"))
	sb.WriteString("\n" + sn.upload)
	fmt.Fprintf(&sb, "\n%v", sn.vers)
	return sb.String()
}

func (s *c10Sys) cur() c10Snap {
	if s.cache == nil {
		sn := s.snap()
		s.cache = &sn
	}
	return *s.cache
}

func (s *c10Sys) Key() string { return drv.KeyOf(s.cur().canonical()) }

func (s *c10Sys) canon(k string) string {
	k = strings.TrimRight(k, "/") // routing trims trailing slashes (C16)
	if s.w.Cfg.Kind.IsFs() {
		return path.Clean("/" + k)
	}
	return k
}

func keyClass(k string) string {
	switch {
	case strings.Contains(k, "..") && !strings.Contains(k, "%"):
		return "dotdot"
	case k == "." || strings.Contains(k, "/./") || strings.HasPrefix(k, "./"):
		return "dot"
	case strings.Contains(k, "//") || strings.HasPrefix(k, "/") || strings.HasSuffix(k, "/"):
		return "empty-segment"
	case len(k) >= 255:
		return "long-segment"
	case k == "_meta" || k == "bucket/aaa" || k == ".modtime-resolution" || strings.HasPrefix(k, "metadata/") || strings.HasPrefix(k, "buckets/"):
		return "internal-name"
	case k == "x/y" || k == "w":
		return "file-dir-clash"
	case k == "w_y":
		return "flattened-meta-name"
	}
	return "plain"
}

func (s *c10Sys) Apply(op engine.Op) (string, *engine.Violation) {
	o := op.(c10Op)
	s.depth++
	s.seq++
	pre := s.cur()
	kind := backendClass(s.w.Cfg.Kind)
	body := []byte(fmt.Sprintf("hostile-%d", s.seq))
	var r drv.Resp
	target := o.key // key whose entries may change
	switch o.kind {
	case "put":
		r = s.w.Do(drv.Req{Method: "PUT", Path: "/" + o.bucket + "/" + o.key, Body: body})
	case "delete":
		r = s.w.Do(drv.Req{Method: "DELETE", Path: "/" + o.bucket + "/" + o.key})
	case "get":
		r = s.w.Do(drv.Req{Method: "GET", Path: "/" + o.bucket + "/" + o.key})
	case "head":
		r = s.w.Do(drv.Req{Method: "HEAD", Path: "/" + o.bucket + "/" + o.key})
	case "copy-to":
		// the copy carries metadata of its own: the source must keep what it has
		r = s.w.Do(drv.Req{Method: "PUT", Path: "/" + o.bucket + "/" + o.key, Header: drv.H("X-Amz-Copy-Source", "/aaa/x", "x-amz-meta-base", "from-the-copy-request", "Content-Type", "text/x-copy", "x-amz-metadata-directive", "REPLACE")})
	case "copy-from":
		r = s.w.Do(drv.Req{Method: "PUT", Path: "/aaa/copied", Header: drv.H("X-Amz-Copy-Source", "/"+o.bucket+"/"+strings.ReplaceAll(o.key, "%", "%25"))})
		target = "copied"
	case "multi":
		r = s.w.Do(drv.Req{Method: "POST", Path: "/" + o.bucket, Query: "delete", Body: multiDeleteBody([]string{o.key}, false)})
	case "form":
		fb, ct := formBody(o.key, body, nil)
		r = s.w.Do(drv.Req{Method: "POST", Path: "/" + o.bucket, Header: drv.H("Content-Type", ct), Body: fb})
	case "list":
		q := ""
		if o.key != "" {
			q = drv.Q("prefix", o.key, "delimiter", "/")
		}
		r = s.w.Do(drv.Req{Method: "GET", Path: "/" + o.bucket, Query: q})
	case "put-versioning":
		r = s.w.Do(drv.Req{Method: "PUT", Path: "/" + o.bucket + "/" + o.key, Query: "versioning", Body: []byte("<VersioningConfiguration><Status>Enabled</Status></VersioningConfiguration>")})
	case "put-uploads":
		r = s.w.Do(drv.Req{Method: "PUT", Path: "/" + o.bucket + "/" + o.key, Query: "uploads", Body: body})
	case "mp-listparts":
		r = s.w.Do(drv.Req{Method: "GET", Path: "/" + o.bucket + "/" + o.key, Query: drv.Q("uploadId", s.victimID)})
	case "mp-part":
		r = s.w.Do(drv.Req{Method: "PUT", Path: "/" + o.bucket + "/" + o.key, Query: drv.Q("uploadId", s.victimID, "partNumber", "1"), Body: body})
	case "mp-complete":
		r = s.w.Do(drv.Req{Method: "POST", Path: "/" + o.bucket + "/" + o.key, Query: drv.Q("uploadId", s.victimID),
			Body: []byte("<CompleteMultipartUpload><Part><PartNumber>1</PartNumber><ETag>" + drv.ETagOf([]byte("victim-part")) + "</ETag></Part></CompleteMultipartUpload>")})
	case "mp-abort":
		r = s.w.Do(drv.Req{Method: "DELETE", Path: "/" + o.bucket + "/" + o.key, Query: drv.Q("uploadId", s.victimID)})
	case "create-bucket":
		r = s.w.Do(drv.Req{Method: "PUT", Path: "/" + o.bucket})
	case "delete-bucket":
		r = s.w.Do(drv.Req{Method: "DELETE", Path: "/" + o.bucket})
	}
	post := s.snap()
	s.cache = &post
	obs := respSig(r)
	bad := func(field, format string, a ...interface{}) (string, *engine.Violation) {
		return obs, viol(sig("C10", kind, o.kind, "bucket="+bucketClass(o.bucket), "key="+keyClass(o.key), field), "%s answered %s: %s", o.String(), r.Short(), fmt.Sprintf(format, a...))
	}
	if r.Panic != "" {
		return bad("panic@"+drv.PanicFrame(r.Panic), "%s", firstLine(r.Panic))
	}
	// effective addressed bucket: the first path segment after trimming slashes
	addrBucket := o.bucket
	if o.kind == "copy-from" {
		addrBucket = "aaa"
	}
	realBucket := contains(pre.buckets, addrBucket) || contains(post.buckets, addrBucket)
	autoCreated := s.w.Cfg.AutoBucket && !contains(pre.buckets, addrBucket) && contains(post.buckets, addrBucket) && nameOracle(addrBucket) == 1
	// internal / non-bucket names must not answer as buckets
	legitAuto := s.w.Cfg.AutoBucket && nameOracle(addrBucket) == 1 // created on the fly, legitimately
	if !realBucket && !legitAuto && (o.kind != "create-bucket" && o.kind != "copy-from") {
		if r.Status >= 200 && r.Status < 300 {
			return obs, viol(sig("C10", kind, "non-bucket-answers", "bucket="+bucketClass(o.bucket)), "%s answered %s: a name that is not a bucket answered with success", o.String(), r.Short())
		}
	}
	if o.kind == "copy-from" && !contains(pre.buckets, o.bucket) && r.Status < 300 {
		return obs, viol(sig("C10", kind, "non-bucket-answers", "bucket="+bucketClass(o.bucket)), "%s answered %s: copy from a name that is not a bucket succeeded", o.String(), r.Short())
	}
	// every bucket still lists
	for b, st := range post.list {
		if !strings.HasPrefix(st, "200") && strings.HasPrefix(pre.list[b], "200") && !(o.kind == "delete-bucket" && b == o.bucket) {
			return bad("bucket-unlistable", "bucket %s listed %s before and %s afterwards", b, pre.list[b], st)
		}
	}
	// ListBuckets: only creations/deletions of the addressed name
	for _, b := range post.buckets {
		if !contains(pre.buckets, b) && !(o.kind == "create-bucket" && b == o.bucket) && !(autoCreated && b == addrBucket) {
			return bad("bucket-appeared", "bucket %q appeared in ListBuckets", b)
		}
	}
	for _, b := range pre.buckets {
		if !contains(post.buckets, b) && !(o.kind == "delete-bucket" && b == o.bucket) {
			return bad("bucket-disappeared", "bucket %q disappeared from ListBuckets", b)
		}
	}
	// the configuration of a bucket is not a key's to change
	for b, st := range pre.vers {
		if now, ok := post.vers[b]; ok && now != st {
			return bad("bucket-versioning-changed", "versioning of bucket %s was %q and is now %q", b, st, now)
		}
	}
	// a pending upload belongs to its bucket and key: requests addressed to another
	// key (or bucket) must not change it, whatever upload id they present
	if pre.upload != post.upload {
		own := addrBucket == "aaa" && s.canon(target) == s.canon(c10VictimKey) && strings.HasPrefix(o.kind, "mp-") && !o.read
		if !own {
			return bad("other-keys-upload-changed", "the pending upload of aaa/%s was {%s} and is now {%s}", c10VictimKey, pre.upload, post.upload)
		}
	}
	if strings.HasPrefix(o.kind, "mp-") && r.Status < 300 && !(addrBucket == "aaa" && s.canon(target) == s.canon(c10VictimKey)) {
		return bad("foreign-upload-id-accepted", "an upload id that belongs to aaa/%s was accepted on another key", c10VictimKey)
	}
	// framing on objects
	allowed := s.canon(target)
	for b, objs := range pre.objs {
		if o.kind == "delete-bucket" && b == o.bucket && !contains(post.buckets, b) {
			continue
		}
		for k, v := range objs {
			nv, ok := post.objs[b][k]
			same := ok && nv == v
			if same {
				continue
			}
			if b == addrBucket && s.canon(k) == allowed && !o.read && o.kind != "list" && o.kind != "create-bucket" && o.kind != "delete-bucket" {
				continue
			}
			f := "other-key-changed"
			if b != addrBucket {
				f = "other-bucket-changed"
			}
			if o.read || o.kind == "list" {
				f = "read-changed-state"
			}
			return bad(f, "entry %s/%q was %s and is now %s", b, k, v, nv)
		}
	}
	for b, objs := range post.objs {
		for k, v := range objs {
			if _, ok := pre.objs[b][k]; ok {
				continue
			}
			if _, had := pre.objs[b]; !had && (o.kind == "create-bucket" || (autoCreated && b == addrBucket && s.canon(k) == allowed)) {
				continue
			}
			if b == addrBucket && s.canon(k) == allowed && !o.read {
				continue
			}
			if strings.HasPrefix(v, "404") {
				continue // a probe of a bucket that exists now; nothing is stored there
			}
			return bad("foreign-key-appeared", "entry %s/%q appeared: %s", b, k, v)
		}
	}
	// accepted puts on opaque backends: the exact key must read back
	if (o.kind == "put") && r.Status == 200 && realBucket {
		got := s.w.Get(o.bucket, o.key)
		if got.Status != 200 || string(got.Body) != string(body) {
			return bad("accepted-put-not-readable", "GET of the accepted key answers %s", got.String())
		}
	}
	// on-disk confinement (multi-bucket fs): only buckets/<b>/ and metadata/<b>/ may change
	if s.w.Cfg.Kind == drv.MultiMem || s.w.Cfg.Kind == drv.MultiDir {
		preSet := map[string]bool{}
		for _, l := range pre.raw {
			preSet[l] = true
		}
		postSet := map[string]bool{}
		for _, l := range post.raw {
			postSet[l] = true
		}
		check := func(l string) bool {
			i := strings.Index(l, "\"")
			if i < 0 {
				return true
			}
			p := strings.Trim(strings.SplitN(l[i:], "\"", 3)[1], "/")
			if p == "buckets" || p == "metadata" || p == "" {
				return true
			}
			for _, pfx := range []string{"buckets/" + addrBucket, "metadata/" + addrBucket} {
				if p == pfx || strings.HasPrefix(p, pfx+"/") {
					return true
				}
			}
			return false
		}
		for l := range postSet {
			if !preSet[l] && !check(l) {
				return bad("storage-outside-bucket", "storage entry changed outside the addressed bucket: %s", l)
			}
		}
		for l := range preSet {
			if !postSet[l] && !check(l) {
				return bad("storage-outside-bucket", "storage entry removed outside the addressed bucket: %s", l)
			}
		}
	}
	return obs, nil
}

func bucketClass(b string) string {
	switch b {
	case "aaa", "bbb":
		return "real"
	case "_meta", "metadata", "buckets":
		return "internal-name"
	}
	return "path-like"
}

func (s *c10Sys) Check() ([]*engine.Violation, int64) {
	// internal names never listed
	names, _ := s.w.ListBuckets()
	for _, n := range names {
		if n == "_meta" || n == "." || n == ".." {
			return []*engine.Violation{viol(sig("C10", backendClass(s.w.Cfg.Kind), "list-buckets", "internal-name-listed"), "ListBuckets shows %q", n)}, 1
		}
	}
	return nil, 1
}

func runC10(c *engine.Ctx) {
	c.Rule = "state = full-store snapshot (every bucket, listing, body, ETag) + raw storage dump of a populated two-bucket store; transition = one operation (put/browser-form upload/get/head/delete/multi-delete/copy to (with metadata of its own)/copy from/list/create-bucket/delete-bucket, and as a first step list-parts/upload-part/complete/abort presenting the upload id of a pending upload of another key) addressed to a hostile key or bucket name; oracle = framing: only entries of the addressed bucket whose canonical key equals the addressed key may change, nothing else changes, every bucket still lists, non-bucket names never answer with success, storage changes stay under the addressed bucket's directories; distinct_nontrivial = distinct canonical states"
	c.Assumptions = append(c.Assumptions, "fs backends may refuse any hostile key if nothing changes; aliasing of keys inside the addressed bucket via path cleaning is the fs key domain, not interference", "sequences of <= 2 hostile operations (thorough: <= 3 with the third restricted to reads/deletes)")
	kinds := drv.MemFsKinds
	maxD := 2
	if !quick(c) {
		kinds = drv.AllKinds
		maxD = 3
	}
	var cfgs []drv.Config
	for _, k := range kinds {
		cfgs = append(cfgs, drv.Config{Kind: k})
	}
	// auto-bucket creation must not open a way around the name checks
	if quick(c) {
		cfgs = append(cfgs, drv.Config{Kind: drv.MultiDir, NoVersioning: true}, drv.Config{Kind: drv.SingleDir, NoVersioning: true}) // depth 1, see below
	}
	cfgs = append(cfgs, drv.Config{Kind: drv.Bolt, AutoBucket: true}, drv.Config{Kind: drv.MultiMem, AutoBucket: true}, drv.Config{Kind: drv.Mem, AutoBucket: true})
	// the same hostile keys addressed host-style (the driver rewrites /<bucket>/<key> to Host <bucket>.<base>, path /<key>)
	cfgs = append(cfgs, drv.Config{Kind: drv.Mem, HostBases: []string{drv.HostBase}}, drv.Config{Kind: drv.MultiMem, HostBases: []string{drv.HostBase}})
	c.SpecBudget = c.Budget() / time.Duration(len(cfgs))
	for _, cfg := range cfgs {
		cfg := cfg
		name := "C10/" + worldName(cfg)
		d := maxD
		if cfg.AutoBucket || (quick(c) && cfg.Kind.IsDir()) || cfg.HostBucket || len(cfg.HostBases) > 0 {
			d = 1
		}
		engine.RunSeq(c, engine.SeqSpec{Name: name, World: worldName(cfg), MaxDepth: d, NoCheck0: false,
			New: func() (engine.Sys, error) { return newC10Sys(cfg, d) }})
		c.Bounds[name] = map[string]interface{}{"hostile_keys": len(c10Keys(cfg.Kind)), "bucket_names": c10BucketNames, "depth": d}
	}
}

func init() { Registry["C10"] = runC10 }
