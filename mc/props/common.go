// Package props defines, per property, the alphabet, bounds and oracle and
// wires them to the engines.
package props

import (
	"bytes"
	"fmt"
	"sort"
	"strconv"
	"strings"

	"verifmc/drv"
	"verifmc/engine"
	"verifmc/model"
)

type Runner func(c *engine.Ctx)

var Registry = map[string]Runner{}

func quick(c *engine.Ctx) bool { return c.Tier != "thorough" }

// sig builds a violation signature.
func sig(parts ...string) string { return strings.Join(parts, "/") }

func viol(sigv, format string, a ...interface{}) *engine.Violation {
	return &engine.Violation{Sig: sigv, Msg: fmt.Sprintf(format, a...)}
}

// respSig renders "status:code" or "panic@frame".
func respSig(r drv.Resp) string {
	if r.Panic != "" {
		return "panic@" + drv.PanicFrame(r.Panic)
	}
	if c := r.ErrCode(); c != "" {
		return strconv.Itoa(r.Status) + ":" + c
	}
	return strconv.Itoa(r.Status)
}

func expSig(e model.Exp) string {
	if e.Code != "" {
		return strconv.Itoa(e.Status) + ":" + e.Code
	}
	return strconv.Itoa(e.Status)
}

// matchExp compares status and S3 code only.
func matchExp(r drv.Resp, e model.Exp) bool {
	if r.Panic != "" {
		return false
	}
	if r.Status != e.Status {
		return false
	}
	if e.Code != "" && r.ErrCode() != e.Code {
		return false
	}
	return true
}

// matchExpHead is matchExp for HEAD requests (error responses carry no body).
func matchExpHead(r drv.Resp, e model.Exp) bool {
	return r.Panic == "" && r.Status == e.Status && len(r.Body) == 0
}

// checkObjView compares a GET/HEAD view with the model object. Returns a
// field name ("" when it matches) and a message.
func checkObjView(v drv.ObjView, o *model.Obj, head bool) (string, string) {
	if v.Panic != "" {
		return "panic@" + drv.PanicFrame(v.Panic), "handler panicked: " + firstLine(v.Panic)
	}
	if o == nil {
		if v.Status != 404 {
			return "status", fmt.Sprintf("expected 404 NoSuchKey, got %d %s", v.Status, v.Code)
		}
		if !head && v.Code != "NoSuchKey" {
			return "code", fmt.Sprintf("expected NoSuchKey, got %s", v.Code)
		}
		return "", ""
	}
	if v.Status != 200 {
		return "status", fmt.Sprintf("expected 200, got %d %s", v.Status, v.Code)
	}
	if head {
		if len(v.Body) != 0 {
			return "head-body", fmt.Sprintf("HEAD returned %d body bytes", len(v.Body))
		}
	} else if !bytes.Equal(v.Body, o.Body) {
		return "body", fmt.Sprintf("body differs: got %s want %s", clipBytes(v.Body), clipBytes(o.Body))
	}
	if want := strconv.Itoa(len(o.Body)); v.Len != want {
		return "content-length", fmt.Sprintf("Content-Length %q want %q", v.Len, want)
	}
	if want := drv.ETagOf(o.Body); v.ETag != want {
		return "etag", fmt.Sprintf("ETag %s want %s", v.ETag, want)
	}
	var ks []string
	for k := range o.Meta {
		ks = append(ks, k)
	}
	sort.Strings(ks)
	for _, k := range ks {
		if got, ok := v.Meta[k]; !ok || got != o.Meta[k] {
			return "meta", fmt.Sprintf("metadata %s=%q want %q (present=%v)", k, got, o.Meta[k], ok)
		}
	}
	return "", ""
}

func clipBytes(b []byte) string {
	if len(b) > 40 {
		return fmt.Sprintf("%q…(%d bytes)", b[:40], len(b))
	}
	return fmt.Sprintf("%q", b)
}

func firstLine(s string) string {
	if i := strings.IndexByte(s, '\n'); i >= 0 {
		return s[:i]
	}
	return s
}

func worldName(cfg drv.Config) string {
	s := string(cfg.Kind)
	if cfg.AutoBucket {
		s += "+auto"
	}
	if cfg.HostBucket {
		s += "+host"
	}
	if len(cfg.HostBases) > 0 {
		s += "+bases"
	}
	if cfg.FailOnUnimplPage {
		s += "+pagefail"
	}
	if cfg.NoIntegrity {
		s += "+nointegrity"
	}
	if cfg.NoVersioning {
		s += "+nover"
	}
	return s
}

func singleOf(k drv.Kind) string {
	if k.IsSingle() {
		return drv.SingleName
	}
	return ""
}

func ptr64(v int64) *int64 { return &v }

// SubCommands are internal worker entry points (schedmc shards etc.).
var SubCommands = map[string]func(args []string) int{}

func RunSub(name string, args []string) int {
	f, ok := SubCommands[name]
	if !ok {
		fmt.Println("HARNESS-ERROR unknown sub-command", name)
		return 2
	}
	return f(args)
}

func contains(l []string, s string) bool {
	for _, x := range l {
		if x == s {
			return true
		}
	}
	return false
}
