package props

import (
	"fmt"
	"strconv"
	"strings"

	"verifmc/drv"
	"verifmc/engine"
	"verifmc/model"
)

// C14 — ListMultipartUploads / ListParts: state predicate on the C06 universe.

type upItem struct {
	cp   bool
	name string // key or common prefix
	id   string
}

func (s *mpSys) expectedUploads(p, d string) []upItem {
	sorted := s.m.SortedUploads()
	var keys []string
	seen := map[string]bool{}
	for _, u := range sorted {
		if !seen[u.Key] {
			seen[u.Key] = true
			keys = append(keys, u.Key)
		}
	}
	var out []upItem
	for _, e := range model.Group(keys, p, d) {
		if e.CP {
			out = append(out, upItem{cp: true, name: e.Name})
			continue
		}
		for _, u := range sorted {
			if u.Key == e.Name {
				out = append(out, upItem{name: u.Key, id: u.ID})
			}
		}
	}
	return out
}

func renderUp(items []upItem, rank map[string]int) string {
	var p []string
	for _, it := range items {
		if it.cp {
			p = append(p, "CP:"+it.name)
		} else {
			p = append(p, fmt.Sprintf("%s#u%d", it.name, rank[it.id]))
		}
	}
	return "[" + strings.Join(p, " ") + "]"
}

func pageItems(pg drv.UploadsPage) (ups, cps []upItem) {
	for _, u := range pg.Uploads {
		ups = append(ups, upItem{name: u.Key, id: u.ID})
	}
	for _, c := range pg.Prefixes {
		cps = append(cps, upItem{cp: true, name: c})
	}
	return
}

func (s *mpSys) checkMPListing() ([]*engine.Violation, int64) {
	var vs []*engine.Violation
	var evals int64
	if s.inits == 0 {
		return nil, 0 // statement: only buckets that have had an upload initiated
	}
	rank := map[string]int{}
	for i, u := range s.m.Uploads {
		rank[u.ID] = i
	}
	for _, d := range []string{"", "/", "cb"} { // "cb": more than one character, occurs in no key
		for _, p := range []string{"", "a", "b", "b/"} {
			base := ""
			if p != "" {
				base = drv.Q("prefix", p)
			}
			if d != "" {
				base = joinQ(base, drv.Q("delimiter", d))
			}
			cond := delimClass(d) + "," + prefixClass(p, d)
			bad := func(op, field, format string, a ...interface{}) {
				vs = append(vs, viol(sig("C14", "any", op, field, cond), "GET /aaa?uploads&%s: %s", base, fmt.Sprintf(format, a...)))
			}
			exp := s.expectedUploads(p, d)
			var expUps, expCPs []upItem
			for _, it := range exp {
				if it.cp {
					expCPs = append(expCPs, it)
				} else {
					expUps = append(expUps, it)
				}
			}
			full := s.w.ListUploads(s.bucket, base)
			evals++
			if full.Panic != "" {
				bad("list-uploads", "panic@"+drv.PanicFrame(full.Panic), "%s", firstLine(full.Panic))
				continue
			}
			if full.Status != 200 {
				bad("list-uploads", fmt.Sprintf("status=%d:%s", full.Status, full.Code), "expected 200")
				continue
			}
			gu, gc := pageItems(full)
			if renderUp(gu, rank) != renderUp(expUps, rank) {
				f := "uploads-set"
				if len(gu) == len(expUps) {
					f = "uploads-order-or-identity"
				}
				bad("list-uploads", f, "uploads %s, want %s", renderUp(gu, rank), renderUp(expUps, rank))
				continue
			}
			if renderUp(gc, rank) != renderUp(expCPs, rank) {
				bad("list-uploads", "common-prefixes", "common prefixes %s, want %s", renderUp(gc, rank), renderUp(expCPs, rank))
				continue
			}
			if full.IsTruncated {
				bad("list-uploads", "truncated", "unpaginated listing reports IsTruncated")
				continue
			}
			// a key marker beyond the last key: nothing follows it
			for _, q := range []string{drv.Q("key-marker", "zzz"), joinQ("max-uploads=1", drv.Q("key-marker", "zzz"))} {
				pg := s.w.ListUploads(s.bucket, joinQ(base, q))
				evals++
				if pg.Panic != "" || pg.Status != 200 {
					bad("marker-beyond-end", fmt.Sprintf("status=%d:%s%s", pg.Status, pg.Code, panicSigOf(pg.Panic)), "%s", q)
					break
				}
				if pu, pc := pageItems(pg); len(pu) > 0 || len(pc) > 0 || pg.IsTruncated {
					bad("marker-beyond-end", "not-empty", "%s: %s+%s trunc=%v next=(%q,%s) although no key sorts after the marker", q, renderUp(pu, rank), renderUp(pc, rank), pg.IsTruncated, pg.NextKey, pg.NextID)
					break
				}
			}
			// paging
			n := len(exp)
			for mk := 1; mk <= n+1; mk++ {
				var catU, catC []upItem
				km, im := "", ""
				var trace []string
				failed := false
				for page := 0; ; page++ {
					if page > n+2 {
						bad("page-uploads", "no-termination", "max-uploads=%d: %s", mk, strings.Join(trace, " | "))
						failed = true
						break
					}
					q := joinQ(base, "max-uploads="+strconv.Itoa(mk))
					if page > 0 {
						q = joinQ(q, drv.Q("key-marker", km, "upload-id-marker", im))
					}
					pg := s.w.ListUploads(s.bucket, q)
					evals++
					if pg.Panic != "" {
						bad("page-uploads", "panic@"+drv.PanicFrame(pg.Panic), "max-uploads=%d: %s", mk, firstLine(pg.Panic))
						failed = true
						break
					}
					if pg.Status != 200 {
						bad("page-uploads", fmt.Sprintf("status=%d:%s", pg.Status, pg.Code), "max-uploads=%d page %d", mk, page)
						failed = true
						break
					}
					pu, pc := pageItems(pg)
					trace = append(trace, fmt.Sprintf("%s+%s trunc=%v next=(%q,%s)", renderUp(pu, rank), renderUp(pc, rank), pg.IsTruncated, pg.NextKey, pg.NextID))
					if len(pu) > mk {
						bad("page-uploads", "over-page-size", "max-uploads=%d: page with %d uploads", mk, len(pu))
						failed = true
						break
					}
					catU = append(catU, pu...)
					catC = append(catC, pc...)
					if !pg.IsTruncated {
						break
					}
					if pg.NextKey == "" {
						bad("page-uploads", "no-next-markers", "max-uploads=%d: truncated without NextKeyMarker: %s", mk, strings.Join(trace, " | "))
						failed = true
						break
					}
					km, im = pg.NextKey, pg.NextID
				}
				if failed {
					break
				}
				if renderUp(catU, rank) != renderUp(expUps, rank) {
					f := "uploads-skipped"
					if len(catU) > len(expUps) {
						f = "uploads-repeated"
					} else if len(catU) == len(expUps) {
						f = "uploads-mismatch"
					}
					bad("page-uploads", f, "max-uploads=%d: pages %s; want uploads %s", mk, strings.Join(trace, " | "), renderUp(expUps, rank))
					break
				}
				if renderUp(catC, rank) != renderUp(expCPs, rank) {
					f := "cp-skipped"
					if len(catC) > len(expCPs) {
						f = "cp-repeated"
					}
					bad("page-uploads", f, "max-uploads=%d: pages %s; want common prefixes %s", mk, strings.Join(trace, " | "), renderUp(expCPs, rank))
					break
				}
			}
		}
	}
	// ListParts
	for ui, u := range s.m.Uploads {
		ns := u.PartNumbers()
		wantAll := ""
		for _, n := range ns {
			wantAll += fmt.Sprintf(" %d/%d/%s", n, len(u.Parts[n].Body), model.PartETag(u.Parts[n].Body))
		}
		render := func(ps []drv.PartEntry) string {
			o := ""
			for _, p := range ps {
				o += fmt.Sprintf(" %d/%d/%s", p.N, p.Size, p.ETag)
			}
			return o
		}
		bad := func(op, field, cond, format string, a ...interface{}) {
			vs = append(vs, viol(sig("C14", "any", op, field, cond), "ListParts u%d (parts%s): %s", ui, wantAll, fmt.Sprintf(format, a...)))
		}
		full := s.w.ListParts(s.bucket, u.Key, u.ID, "")
		evals++
		if full.Panic != "" || full.Status != 200 {
			bad("list-parts", fmt.Sprintf("status=%d:%s%s", full.Status, full.Code, panicSigOf(full.Panic)), "unpaginated", "%s", panicOf(full.Panic))
			continue
		}
		if render(full.Parts) != wantAll || full.IsTruncated {
			bad("list-parts", "parts", "unpaginated", "got%s trunc=%v", render(full.Parts), full.IsTruncated)
			continue
		}
		n := len(ns)
		for mk := 1; mk <= n+1; mk++ {
			var cat []drv.PartEntry
			marker := -1
			var trace []string
			failed := false
			for page := 0; ; page++ {
				if page > n+2 {
					bad("page-parts", "no-termination", "server-marker", "max-parts=%d: %s", mk, strings.Join(trace, " | "))
					failed = true
					break
				}
				q := "max-parts=" + strconv.Itoa(mk)
				if marker >= 0 {
					q += "&part-number-marker=" + strconv.Itoa(marker)
				}
				pg := s.w.ListParts(s.bucket, u.Key, u.ID, q)
				evals++
				if pg.Panic != "" || pg.Status != 200 {
					bad("page-parts", fmt.Sprintf("status=%d:%s%s", pg.Status, pg.Code, panicSigOf(pg.Panic)), "server-marker", "max-parts=%d marker=%d: %s; %s", mk, marker, panicOf(pg.Panic), strings.Join(trace, " | "))
					failed = true
					break
				}
				trace = append(trace, fmt.Sprintf("%s trunc=%v next=%d", render(pg.Parts), pg.IsTruncated, pg.NextMarker))
				if len(pg.Parts) > mk {
					bad("page-parts", "over-page-size", "server-marker", "max-parts=%d: %d parts", mk, len(pg.Parts))
					failed = true
					break
				}
				cat = append(cat, pg.Parts...)
				if !pg.IsTruncated {
					break
				}
				marker = pg.NextMarker
			}
			if failed {
				break
			}
			if render(cat) != wantAll {
				f := "parts-skipped"
				if len(cat) > n {
					f = "parts-repeated"
				} else if len(cat) == n {
					f = "parts-wrong-numbers"
				}
				bad("page-parts", f, "server-marker", "max-parts=%d: pages %s", mk, strings.Join(trace, " | "))
				break
			}
		}
		// a page size beyond every clamp is a page size: the whole listing comes back
		for _, mp := range []string{"2147483648", "9223372036854775807"} {
			pg := s.w.ListParts(s.bucket, u.Key, u.ID, "max-parts="+mp)
			evals++
			if pg.Panic != "" || pg.Status != 200 || render(pg.Parts) != wantAll || pg.IsTruncated {
				bad("list-parts", fmt.Sprintf("status=%d:%s%s", pg.Status, pg.Code, panicSigOf(pg.Panic)), "huge-max-parts", "max-parts=%s: got%s trunc=%v", mp, render(pg.Parts), pg.IsTruncated)
				break
			}
		}
		// arbitrary numeric markers
		highest := 0
		if n > 0 {
			highest = ns[n-1]
		}
		truth := map[string]bool{}
		for _, nn := range ns {
			truth[fmt.Sprintf("%d/%d/%s", nn, len(u.Parts[nn].Body), model.PartETag(u.Parts[nn].Body))] = true
		}
		for _, m := range []int{0, 1, 2, 4, 5, 6, 9999, 10000, 10001, 99999, 2147483647, 2147483648, 4294967296, 9223372036854775807} {
			pg := s.w.ListParts(s.bucket, u.Key, u.ID, "part-number-marker="+strconv.Itoa(m))
			evals++
			cond := "client-marker"
			if m > highest {
				cond = "client-marker-beyond-highest"
			}
			if pg.Panic != "" || pg.Status != 200 {
				bad("marker-parts", fmt.Sprintf("status=%d:%s%s", pg.Status, pg.Code, panicSigOf(pg.Panic)), cond, "part-number-marker=%d: %s", m, panicOf(pg.Panic))
				break
			}
			okp := true
			prev := -1
			for _, p := range pg.Parts {
				if !truth[fmt.Sprintf("%d/%d/%s", p.N, p.Size, p.ETag)] || p.N <= prev || p.N < m {
					okp = false
				}
				prev = p.N
			}
			if !okp {
				bad("marker-parts", "not-a-subset", cond, "part-number-marker=%d: got%s", m, render(pg.Parts))
				break
			}
			if m > highest && (len(pg.Parts) != 0 || pg.IsTruncated) {
				bad("marker-parts", "not-empty", cond, "part-number-marker=%d: got%s trunc=%v", m, render(pg.Parts), pg.IsTruncated)
				break
			}
		}
	}
	return vs, evals
}

func panicSigOf(p string) string {
	if p == "" {
		return ""
	}
	return "panic@" + drv.PanicFrame(p)
}

func init() {
	Registry["C14"] = func(c *engine.Ctx) {
		c.Rule = "state = canonical snapshot of pending uploads and parts reached by a C06 history; evaluation = one ListMultipartUploads request (prefix x delimiter, unpaginated and every max-uploads 1..n+1 walked with the server's markers) or one ListParts request (unpaginated, every max-parts 1..n+1 walked with NextPartNumberMarker, arbitrary numeric markers); distinct_nontrivial = distinct canonical states"
		c.Assumptions = append(c.Assumptions, "only buckets that have had an upload initiated (statement precondition)", "arbitrary numeric part markers only need a well-formed ascending subset answer, empty beyond the highest part", "common prefixes are not counted against max-uploads")
		runMP(c, "C14")
		if c.Replay == nil {
			bigMultipart(c)
		}
	}
}
