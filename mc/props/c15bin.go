package props

import (
	"bytes"
	"fmt"
	"io"
	"net"
	"net/http"
	"os"
	"os/exec"
	"path/filepath"
	"strings"
	"time"

	"verifmc/drv"
	"verifmc/engine"
	"verifmc/model"
)

// C15, wiring conformance: the in-process worlds above are only as good as
// their correspondence with what cmd/gofakes3 builds from its flags. The real
// binary is built from the working tree, started on the loopback interface
// for every persistent backend, driven over real HTTP, killed (SIGKILL)
// after every prefix of a fixed history, restarted on the same storage and
// compared with the model of the acknowledged operations.

type binServer struct {
	cmd    *exec.Cmd
	base   string
	exited chan error
}

func startBin(bin string, args []string) (*binServer, error) {
	// pick a free loopback port ourselves (no dependence on the server's log format)
	l, err := net.Listen("tcp", "127.0.0.1:0")
	if err != nil {
		return nil, fmt.Errorf("listen tcp 127.0.0.1:0: %v", err)
	}
	addr := l.Addr().String()
	l.Close()
	cmd := exec.Command(bin, append([]string{"-host", addr}, args...)...)
	var errBuf bytes.Buffer
	cmd.Stderr = &errBuf
	if err := cmd.Start(); err != nil {
		return nil, err
	}
	exited := make(chan error, 1)
	go func() { exited <- cmd.Wait() }()
	deadline := time.Now().Add(20 * time.Second)
	for time.Now().Before(deadline) {
		select {
		case werr := <-exited:
			return nil, fmt.Errorf("server exited during start (%v): %s", werr, clip(errBuf.String(), 400))
		default:
		}
		if c, err := net.DialTimeout("tcp", addr, 200*time.Millisecond); err == nil {
			c.Close()
			return &binServer{cmd: cmd, base: "http://" + addr, exited: exited}, nil
		}
		time.Sleep(5 * time.Millisecond)
	}
	cmd.Process.Kill()
	<-exited
	return nil, fmt.Errorf("server did not accept connections within 20 s: %s", clip(errBuf.String(), 400))
}

func (b *binServer) kill() {
	b.cmd.Process.Kill() // SIGKILL
	<-b.exited
}

func (b *binServer) do(method, path string, hdr [][2]string, body []byte) drv.Resp {
	req, err := http.NewRequest(method, b.base+path, bytes.NewReader(body))
	if err != nil {
		return drv.Resp{Panic: "request: " + err.Error()}
	}
	for _, h := range hdr {
		req.Header.Set(h[0], h[1])
	}
	cl := &http.Client{Timeout: 20 * time.Second}
	resp, err := cl.Do(req)
	if err != nil {
		return drv.Resp{Panic: "HANG-or-transport: " + err.Error()}
	}
	defer resp.Body.Close()
	bb, _ := io.ReadAll(resp.Body)
	return drv.Resp{Status: resp.StatusCode, Header: resp.Header, Body: bb}
}

func binMatch(b *binServer, m *model.Store) string {
	lr := b.do("GET", "/", nil, nil)
	var names []string
	if n := lr.XML(); n != nil && lr.Status == 200 {
		for _, bk := range n.Child("Buckets").All("Bucket") {
			names = append(names, bk.T("Name"))
		}
	}
	sortStrings(names)
	if lr.Status != 200 || strings.Join(names, ",") != strings.Join(m.BucketNames(), ",") {
		return fmt.Sprintf("ListBuckets %s = %v, model %v", lr.Short(), names, m.BucketNames())
	}
	for _, bk := range names {
		lp := drv.ParseList(b.do("GET", "/"+bk, nil, nil))
		var got []string
		for _, e := range lp.Entries {
			got = append(got, e.Key)
		}
		if lp.Status != 200 || strings.Join(got, "\x00") != strings.Join(m.Keys(bk), "\x00") {
			return fmt.Sprintf("bucket %s lists %d %q, model %q", bk, lp.Status, got, m.Keys(bk))
		}
		for _, e := range lp.Entries {
			o := m.Get(bk, e.Key)
			if e.ETag != drv.ETagOf(o.Body) || e.Size != int64(len(o.Body)) {
				return fmt.Sprintf("listing entry %s/%s etag=%s size=%d", bk, e.Key, e.ETag, e.Size)
			}
			v := drv.ViewOf(b.do("GET", "/"+bk+"/"+e.Key, nil, nil))
			if f, msg := checkObjView(v, o, false); f != "" {
				return fmt.Sprintf("GET %s/%s: %s", bk, e.Key, msg)
			}
		}
	}
	return ""
}

func runC15Binary(c *engine.Ctx) {
	repo := os.Getenv("VERIF_REPO")
	if repo == "" {
		repo = "/repo"
	}
	bin := filepath.Join(drv.Scratch(), "gofakes3-bin")
	build := exec.Command("go", "build", "-o", bin, "./cmd/gofakes3")
	build.Dir = repo
	if out, err := build.CombinedOutput(); err != nil {
		engine.HarnessError("C15: building cmd/gofakes3 failed: %v\n%s", err, out)
	}
	type cfg struct {
		name   string
		single bool
		args   func(dir string) []string
	}
	cfgs := []cfg{
		{"bolt", false, func(d string) []string { return []string{"-backend", "bolt", "-bolt.db", filepath.Join(d, "db.bolt")} }},
		{"fs", false, func(d string) []string {
			return []string{"-backend", "fs", "-fs.path", filepath.Join(d, "fs"), "-fs.create"}
		}},
		{"fs+meta", false, func(d string) []string {
			return []string{"-backend", "fs", "-fs.path", filepath.Join(d, "fs"), "-fs.meta", filepath.Join(d, "fsmeta"), "-fs.create"}
		}},
		{"directfs+meta", true, func(d string) []string {
			return []string{"-backend", "directfs", "-directfs.path", filepath.Join(d, "data"), "-directfs.meta", filepath.Join(d, "meta"), "-directfs.bucket", "aaa", "-directfs.create"}
		}},
		{"bolt+initialbucket", false, func(d string) []string {
			return []string{"-backend", "bolt", "-bolt.db", filepath.Join(d, "db.bolt"), "-initialbucket", "aaa"}
		}},
	}
	type step struct {
		desc   string
		method string
		path   string
		hdr    [][2]string
		body   string
		apply  func(m *model.Store)
		want   int
	}
	meta := func(v string) map[string]string {
		return map[string]string{"x-amz-meta-a": v, "content-type": "text/" + v}
	}
	hist := []step{
		{"put k", "PUT", "/aaa/k", drv.H("x-amz-meta-a", "one", "Content-Type", "text/one"), "first-body", func(m *model.Store) { m.Put("aaa", "k", []byte("first-body"), meta("one")) }, 200},
		{"put d/x", "PUT", "/aaa/d/x", drv.H("x-amz-meta-a", "two", "Content-Type", "text/two"), "second", func(m *model.Store) { m.Put("aaa", "d/x", []byte("second"), meta("two")) }, 200},
		{"overwrite k", "PUT", "/aaa/k", drv.H("x-amz-meta-a", "three", "Content-Type", "text/three"), "third-longer-body", func(m *model.Store) { m.Put("aaa", "k", []byte("third-longer-body"), meta("three")) }, 200},
		{"copy k->c", "PUT", "/aaa/c", drv.H("X-Amz-Copy-Source", "/aaa/k"), "", func(m *model.Store) { m.Copy("aaa", "k", "aaa", "c") }, 200},
		{"delete d/x", "DELETE", "/aaa/d/x", nil, "", func(m *model.Store) { m.Delete("aaa", "d/x") }, 204},
	}
	var runs, restarts int64
	for _, cf := range cfgs {
		for cut := 0; cut <= len(hist); cut++ {
			dir, _ := os.MkdirTemp(drv.Scratch(), "bin")
			args := cf.args(dir)
			m := model.NewStore(false, map[bool]string{true: "aaa", false: ""}[cf.single])
			srv, err := startBin(bin, args)
			if err != nil {
				os.RemoveAll(dir)
				if e := err.Error(); strings.Contains(e, "listen tcp") || strings.Contains(e, "bind:") || strings.Contains(e, "not permitted") {
					// no loopback interface in this sandbox: an environment limit, not a verdict
					c.Cap("wiring conformance skipped: cannot listen on the loopback interface (" + clip(e, 120) + ")")
					return
				}
				c.Report(&engine.Violation{Sig: sig("C15", "binary", cf.name, "start-failed"), World: cf.name, Msg: err.Error()})
				break
			}
			fail := func(what, msg string, h []string) {
				c.Report(&engine.Violation{Sig: sig("C15", "binary", cf.name, what), World: "cmd/gofakes3 " + strings.Join(args, " "), History: h, Msg: msg})
			}
			var hs []string
			if !cf.single {
				if strings.Contains(cf.name, "initialbucket") {
					m.CreateBucket("aaa")
				} else if r := srv.do("PUT", "/aaa", nil, nil); r.Status == 200 {
					m.CreateBucket("aaa")
				} else {
					fail("create-bucket", "create bucket answered "+r.Short(), nil)
				}
			}
			okRun := true
			for i := 0; i < cut; i++ {
				st := hist[i]
				r := srv.do(st.method, st.path, st.hdr, []byte(st.body))
				hs = append(hs, st.desc)
				if r.Status != st.want {
					fail("step", fmt.Sprintf("%s answered %s", st.desc, r.Short()), hs)
					okRun = false
					break
				}
				st.apply(m)
			}
			if okRun {
				if d := binMatch(srv, m); d != "" {
					fail("before-kill", "state before the kill differs from the model: "+d, hs)
				}
			}
			srv.kill()
			runs++
			if okRun {
				srv2, err := startBin(bin, args)
				if err != nil {
					fail("restart-failed", "the server does not start again on the same storage: "+err.Error(), append(hs, "kill -9", "restart"))
				} else {
					restarts++
					if d := binMatch(srv2, m); d != "" {
						fail("after-restart", "after kill -9 and restart on the same storage: "+d, append(hs, "kill -9", "restart"))
					}
					srv2.kill()
				}
			}
			os.RemoveAll(dir)
		}
	}
	c.Extra["binary_runs"] = runs
	c.Extra["binary_restarts_compared"] = restarts
	c.Add(runs, runs, restarts, restarts)
	c.AddSample(map[string]interface{}{"binary": "cmd/gofakes3 -backend directfs -directfs.path D -directfs.meta M -directfs.bucket aaa", "history": []string{"put k", "put d/x", "overwrite k", "kill -9", "restart", "compare with model"}})
}
