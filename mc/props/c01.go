package props

import (
	"bytes"
	"crypto/md5"
	"encoding/base64"
	"fmt"
	"io"
	"mime/multipart"
	"net/http"
	"net/url"
	"sort"
	"strings"

	"verifmc/drv"
	"verifmc/engine"
	"verifmc/model"
)

// C01 — byte-for-byte round trip, size, ETag, metadata (inputmc).

type c01Case struct {
	kind      drv.Kind
	group     string
	path      string // put | form | copy | copy-self | backend-api | backend-api-nil
	key       string
	keyName   string
	size      int
	pattern   string
	meta      map[string]string // header name -> value
	integrity string            // on+md5 | on | off
	start     string            // absent | existing
	sibling   string            // second key uploaded afterwards (sibling group)
}

func (cs c01Case) String() string {
	return fmt.Sprintf("%s path=%s key=%s size=%d pattern=%s meta=%s integrity=%s start=%s", cs.kind, cs.path, cs.keyName, cs.size, cs.pattern, drv.MetaString(cs.meta), cs.integrity, cs.start)
}

func c01Body(n int, pattern string) []byte {
	b := make([]byte, n)
	switch pattern {
	case "zeros":
	case "ff":
		for i := range b {
			b[i] = 0xff
		}
	case "mod251":
		for i := range b {
			b[i] = byte(i % 251)
		}
	case "crlf-text":
		src := "line one\r\nline two\r\n\r\n--\r\n"
		for i := range b {
			b[i] = src[i%len(src)]
		}
	case "boundary":
		// look-alikes of the form boundary (a real client picks a boundary that does not occur in the content)
		src := "\r\n--verifboundar\r\nContent-Disposition: form-data; name=\"key\"\r\n\r\nevil\r\n--verifboundarY--\r\n-verifboundary\r\n"
		for i := range b {
			b[i] = src[i%len(src)]
		}
	}
	return b
}

func formBody(key string, body []byte, fields map[string]string) ([]byte, string) {
	var buf bytes.Buffer
	mw := multipart.NewWriter(&buf)
	mw.SetBoundary("verifboundary")
	mw.WriteField("key", key)
	var ks []string
	for k := range fields {
		ks = append(ks, k)
	}
	sort.Strings(ks)
	for _, k := range ks {
		mw.WriteField(k, fields[k])
	}
	fw, _ := mw.CreateFormFile("file", "upload.bin")
	fw.Write(body)
	mw.Close()
	return buf.Bytes(), mw.FormDataContentType()
}

func c01Keys(kind drv.Kind) (names []string, keys map[string]string) {
	keys = map[string]string{
		"plain": "k", "nested": "a/b/c", "space": "sp ace", "plus": "pl+us", "percent": "per%cent", "question": "q?m",
		"hash": "ha#sh", "amp-eq": "amp&eq=", "utf8": "ü/日本", "dot-inside": "a.b/c..d", "trailing-space": "x ",
	}
	if kind.IsFs() {
		// fs key domain: segments of at most 255 bytes; total length up to the 1024-byte key limit
		keys["long200"] = strings.Repeat("k", 200)
		keys["long255"] = strings.Repeat("k", 255)
		keys["long1024-segments"] = strings.Repeat(strings.Repeat("s", 199)+"/", 5) + strings.Repeat("t", 24)
	} else {
		keys["long1024"] = strings.Repeat("k", 1024)
		keys["long1024-segments"] = strings.Repeat(strings.Repeat("s", 199)+"/", 5) + strings.Repeat("t", 24)
	}
	// 722 bytes of multi-byte UTF-8: three times as long once it is percent-encoded (copy source header)
	keys["utf8-722-bytes"] = strings.Repeat(strings.Repeat("日", 80)+"/", 2) + strings.Repeat("日", 80)
	for n := range keys {
		names = append(names, n)
	}
	sort.Strings(names)
	return
}

func runC01(c *engine.Ctx) {
	c.Rule = "case = one upload (path: PUT, browser-form POST, copy to another key, copy onto itself, Go Backend.PutObject with map or nil metadata) from three complete factor products: (size x byte pattern) x path x backend x integrity mode; key x path x backend; metadata subset (32) x {PUT, Backend API} x backend x start state; oracle computed by the checker: GET twice, HEAD, upload-response ETag, ListObjects entry, Backend.GetObject/HeadObject; distinct_nontrivial = distinct cases whose round trip was verified"
	c.Assumptions = append(c.Assumptions, "three factor groups, each a complete product (not the full cross product)", "extra metadata keys on the response are tolerated (the statement only requires sent headers to come back)", "fs key domain: clean relative paths, segments <= 255 bytes, flattened key + 33 <= 255")
	kinds := drv.AllKinds // real-directory worlds also in the quick tier
	sizes := []int{0, 1, 2, 3, 255, 256, 4095, 4096, 4097, 32767, 32768, 32769, 65537}
	if !quick(c) {
		kinds = drv.AllKinds
		sizes = append(sizes, 1<<20+1, 5<<20+3)
	}
	patterns := []string{"zeros", "ff", "mod251", "crlf-text", "boundary"}
	paths := []string{"put", "form", "copy", "copy-self", "backend-api"}
	var cases []c01Case
	for _, k := range kinds {
		// G1
		for _, sz := range sizes {
			for _, pat := range patterns {
				if sz > 1<<20 && pat != "mod251" {
					continue
				}
				for _, p := range paths {
					for _, integ := range []string{"on+md5", "on", "off"} {
						if integ == "on+md5" && p != "put" {
							continue
						}
						cases = append(cases, c01Case{kind: k, group: "size", path: p, key: "obj/k", keyName: "obj/k", size: sz, pattern: pat, integrity: integ, start: "absent"})
					}
				}
			}
		}
		// G2
		names, keys := c01Keys(k)
		for _, n := range names {
			for _, p := range paths {
				cases = append(cases, c01Case{kind: k, group: "key", path: p, key: keys[n], keyName: n, size: 17, pattern: "mod251", integrity: "on", start: "absent"})
			}
		}
		// G4: sibling keys that differ only in a separator-like character must stay distinct objects
		for _, pair := range [][2]string{{"r/2024", "r_2024"}, {"r/2024", "r\\2024"}, {"r_2024", "r\\2024"}, {"a/b/c", "a_b_c"}, {"a/b_c", "a_b/c"}, {"Key", "key"}} {
			for _, p := range []string{"put", "backend-api"} {
				cases = append(cases, c01Case{kind: k, group: "sibling", path: p, key: pair[0], keyName: pair[0] + "|" + pair[1], sibling: pair[1], size: 11, pattern: "mod251", integrity: "on", start: "absent",
					meta: map[string]string{"x-amz-meta-a": "first"}})
			}
		}
		// G5: header values (codings, types, dispositions, user metadata values) must come back verbatim
		for _, hv := range [][2]string{{"Content-Encoding", "deflate"}, {"Content-Encoding", "compress"}, {"Content-Encoding", "br"}, {"Content-Encoding", "sdch"}, {"Content-Encoding", "identity"},
			{"Content-Encoding", "gzip, deflate"}, {"Content-Type", "application/x-www-form-urlencoded"}, {"Content-Type", "a/b; x=\"y z\""}, {"Content-Type", "TEXT/Plain"},
			{"Content-Disposition", "inline"}, {"Content-Disposition", "attachment; filename*=UTF-8''%e2%82%ac.txt"}, {"x-amz-meta-a", "  spaced  out  "}, {"x-amz-meta-a", "aws-chunked"},
			{"x-amz-meta-a", strings.Repeat("v", 900)}, {"x-amz-meta-long-name-" + strings.Repeat("n", 60), "1"}, {"x-amz-meta-a", "ümläut"}, {"x-amz-meta-a", "a=b&c=d;e"}} {
			for _, p := range []string{"put", "backend-api"} {
				cases = append(cases, c01Case{kind: k, group: "header-values", path: p, key: "h/k", keyName: hv[0] + "=" + hv[1], size: 5, pattern: "mod251", integrity: "on", start: "absent",
					meta: map[string]string{hv[0]: hv[1]}})
			}
		}
		// G5b: header values are bytes, not necessarily UTF-8 (Latin-1 file names are common)
		for _, hv := range [][2]string{{"x-amz-meta-a", "caf\xe9"}, {"Content-Disposition", "attachment; filename=\"na\xefve.txt\""}} {
			cases = append(cases, c01Case{kind: k, group: "header-value-not-utf8", path: "put", key: "h/k", keyName: hv[0] + "=" + hv[1], size: 5, pattern: "mod251", integrity: "on", start: "absent",
				meta: map[string]string{hv[0]: hv[1]}})
		}
		// G5c: a header sent on several lines is one header with a list value
		cases = append(cases, c01Case{kind: k, group: "header-repeated", path: "put-repeated", key: "h/k", keyName: "x-amz-meta-tags x2", size: 5, pattern: "mod251", integrity: "on", start: "absent"})
		cases = append(cases, c01Case{kind: k, group: "header-repeated", path: "put-repeated-encoding", key: "h/k", keyName: "Content-Encoding x2", size: 5, pattern: "mod251", integrity: "on", start: "absent"})
		// G5e: the request time may be written in any of the date forms HTTP knows (signature
		// version 2 clients send an HTTP-date), with the skew check on as by default
		if k == drv.Mem || k == drv.Bolt {
			for _, f := range []string{"20060102T150405Z", "Mon, 02 Jan 2006 15:04:05 GMT", "Mon, 02 Jan 2006 15:04:05 -0700"} {
				cases = append(cases, c01Case{kind: k, group: "amz-date", path: "put", key: "t/k", keyName: "x-amz-date as " + f, size: 5, pattern: "mod251", integrity: "on", start: "absent", meta: map[string]string{"X-Amz-Date": f}})
			}
		}
		// G5d: a browser-form upload without a key has nothing a GET could name
		cases = append(cases, c01Case{kind: k, group: "form-empty-key", path: "form", key: "", keyName: "(empty)", size: 5, pattern: "mod251", integrity: "on", start: "absent"})
		// G6: a copy that replaces metadata leaves the source's metadata alone
		cases = append(cases, c01Case{kind: k, group: "copy-replace-meta", path: "copy-meta", key: "dst/k", keyName: "dst/k", size: 7, pattern: "mod251", integrity: "on", start: "absent"})
		// G3
		metaKeys := [][2]string{{"x-amz-meta-a", "v"}, {"x-amz-meta-b", ""}, {"Content-Type", "text/x-verif; charset=utf-8"}, {"Content-Encoding", "gzip"}, {"Content-Disposition", `attachment; filename="a b.txt"`}}
		for mask := 0; mask < 32; mask++ {
			meta := map[string]string{}
			for i, mk := range metaKeys {
				if mask&(1<<i) != 0 {
					meta[mk[0]] = mk[1]
				}
			}
			for _, p := range []string{"put", "backend-api", "backend-api-nil"} {
				if p == "backend-api-nil" && mask != 0 {
					continue
				}
				for _, st := range []string{"absent", "existing"} {
					cases = append(cases, c01Case{kind: k, group: "meta", path: p, key: "m/k", keyName: "m/k", size: 9, pattern: "crlf-text", meta: meta, integrity: "on", start: st})
				}
			}
		}
	}
	c.Bounds["sizes"] = sizes
	c.Bounds["patterns"] = patterns
	c.Bounds["paths"] = append(paths, "backend-api-nil")
	c.Bounds["cases"] = len(cases)
	engine.ParallelFor(len(cases), func(_, i int) {
		cs := cases[i]
		f, msg := c01Run(c, cs)
		c.Add(0, 1, 1, 0)
		c.Count(string(cs.kind), "uploads", 1)
		if f == "" {
			c.Distinct(cs.String())
			return
		}
		szc := "small"
		if cs.size > 32768 {
			szc = ">32k"
		} else if cs.size == 0 {
			szc = "empty"
		}
		cond := cs.group + "," + szc
		if cs.group == "key" {
			cond = "key=" + cs.keyName
		}
		if cs.group == "meta" {
			cond = "meta,start=" + cs.start
		}
		if cs.group == "sibling" {
			cond = "sibling-keys"
		}
		if cs.group == "header-values" {
			cond = "header=" + strings.ToLower(strings.SplitN(cs.keyName, "=", 2)[0])
		}
		if cs.group == "copy-replace-meta" {
			cond = "copy-replace-meta"
		}
		if cs.group == "header-value-not-utf8" {
			cond = "header-value-not-utf8"
		}
		if cs.group == "header-repeated" || cs.group == "form-empty-key" || cs.group == "amz-date" {
			cond = cs.group
		}
		path := cs.path
		if f == "head-entity-header-differs" || f == "conditional-get-stale" {
			path, cond = "any", "-" // independent of how and under which key the object was uploaded
		}
		c.Report(&engine.Violation{Sig: sig("C01", backendClass(cs.kind), path, f, cond), World: string(cs.kind), History: []string{cs.String()}, Msg: cs.String() + ": " + msg})
	})
	c.Add(int64(len(cases)), 0, 0, 0)
	c.AddSample(map[string]interface{}{"case": cases[len(cases)/3].String()})
	c.AddSample(map[string]interface{}{"case": cases[len(cases)/2].String()})
}

func c01Run(c *engine.Ctx, cs c01Case) (field, msg string) {
	w, err := drv.NewWorld(drv.Config{Kind: cs.kind, NoIntegrity: cs.integrity == "off", TimeSkew: cs.group == "amz-date"})
	if err != nil {
		engine.HarnessError("C01: %v", err)
	}
	defer w.Close()
	if cs.group == "amz-date" {
		// the current time of the world's clock, written in the case's layout
		layout := cs.meta["X-Amz-Date"]
		cs.meta = map[string]string{"X-Amz-Date": w.Clock.Now().UTC().Format(layout)}
	}
	if !cs.kind.IsSingle() {
		w.Do(drv.Req{Method: "PUT", Path: "/aaa"})
	}
	body := c01Body(cs.size, cs.pattern)
	evals := int64(0)
	defer func() { c.Add(0, 0, 0, evals) }()
	if cs.start == "existing" {
		r := w.Do(drv.Req{Method: "PUT", Path: "/aaa/" + cs.key, Body: []byte("old-different-body"), Header: drv.H("x-amz-meta-old", "o", "Content-Type", "application/old", "x-amz-meta-a", "old-a", "x-amz-meta-b", "old-b", "Content-Encoding", "old-enc", "Content-Disposition", "old-disp")})
		evals++
		if r.Status != 200 {
			return "setup", "pre-existing object: " + r.Short()
		}
	}
	var oldView drv.ObjView
	if cs.start == "existing" {
		oldView = w.Get("aaa", cs.key)
	}
	var hdr [][2]string
	var mk []string
	for k := range cs.meta {
		mk = append(mk, k)
	}
	sort.Strings(mk)
	for _, k := range mk {
		hdr = append(hdr, [2]string{k, cs.meta[k]})
	}
	wantMeta := map[string]string{}
	for k, v := range cs.meta {
		if cs.group != "amz-date" { // (the request time is not metadata of the object)
			wantMeta[strings.ToLower(k)] = v
		}
	}
	upETag := ""
	switch cs.path {
	case "put":
		if cs.integrity == "on+md5" {
			s := md5.Sum(body)
			hdr = append(hdr, [2]string{"Content-MD5", base64.StdEncoding.EncodeToString(s[:])})
		}
		r := w.Do(drv.Req{Method: "PUT", Path: "/aaa/" + cs.key, Body: body, Header: hdr})
		evals++
		if r.Status != 200 || r.Panic != "" {
			return "upload-status", "PUT answered " + r.Short()
		}
		upETag = r.Header.Get("ETag")
	case "put-repeated-encoding":
		r := w.Do(drv.Req{Method: "PUT", Path: "/aaa/" + cs.key, Body: body, Header: drv.H("Content-Encoding", "deflate", "Content-Encoding", "gzip")})
		evals++
		if r.Status != 200 || r.Panic != "" {
			return "upload-status", "PUT answered " + r.Short()
		}
		upETag = r.Header.Get("ETag")
		for _, head := range []bool{false, true} {
			v := w.Get("aaa", cs.key)
			if head {
				v = w.Head("aaa", cs.key)
			}
			evals++
			var vals []string
			for _, line := range v.Hdr["Content-Encoding"] {
				for _, e := range strings.Split(line, ",") {
					vals = append(vals, strings.TrimSpace(e))
				}
			}
			if strings.Join(vals, ",") != "deflate,gzip" {
				return "meta-repeated-header", fmt.Sprintf("Content-Encoding sent as two lines (deflate, gzip) comes back as %q (head=%v)", v.Hdr["Content-Encoding"], head)
			}
		}
	case "put-repeated":
		r := w.Do(drv.Req{Method: "PUT", Path: "/aaa/" + cs.key, Body: body, Header: drv.H("x-amz-meta-tags", "one", "x-amz-meta-tags", "two")})
		evals++
		if r.Status != 200 || r.Panic != "" {
			return "upload-status", "PUT answered " + r.Short()
		}
		upETag = r.Header.Get("ETag")
		for _, head := range []bool{false, true} {
			v := w.Get("aaa", cs.key)
			if head {
				v = w.Head("aaa", cs.key)
			}
			evals++
			var vals []string
			for _, line := range v.Hdr["X-Amz-Meta-Tags"] {
				for _, e := range strings.Split(line, ",") {
					vals = append(vals, strings.TrimSpace(e))
				}
			}
			if strings.Join(vals, ",") != "one,two" {
				return "meta-repeated-header", fmt.Sprintf("x-amz-meta-tags sent as two lines (one, two) comes back as %q (head=%v)", v.Hdr["X-Amz-Meta-Tags"], head)
			}
		}
	case "form":
		fb, ct := formBody(cs.key, body, nil)
		r := w.Do(drv.Req{Method: "POST", Path: "/aaa", Body: fb, Header: drv.H("Content-Type", ct)})
		evals++
		if cs.key == "" && r.Panic == "" && r.Status >= 400 && r.Status < 500 {
			return "", "" // refused: nothing was acknowledged
		}
		if r.Status != 200 || r.Panic != "" {
			return "upload-status", "form POST answered " + r.Short()
		}
		upETag = r.Header.Get("ETag")
	case "copy", "copy-self":
		src := "copy-source"
		if cs.path == "copy-self" {
			src = cs.key
		}
		r := w.Do(drv.Req{Method: "PUT", Path: "/aaa/" + src, Body: body})
		evals++
		if r.Status != 200 {
			return "setup", "source PUT answered " + r.Short()
		}
		r = w.Do(drv.Req{Method: "PUT", Path: "/aaa/" + cs.key, Header: drv.H("X-Amz-Copy-Source", "/aaa/"+url.QueryEscape(src))})
		evals++
		if r.Status != 200 || r.Panic != "" {
			return "upload-status", "copy answered " + r.Short()
		}
		if n := r.XML(); n != nil {
			upETag = n.T("ETag")
		}
	case "copy-meta":
		src := "copy-source"
		r := w.Do(drv.Req{Method: "PUT", Path: "/aaa/" + src, Body: body, Header: drv.H("x-amz-meta-a", "src-value", "Content-Type", "text/src", "Content-Disposition", "inline")})
		evals++
		if r.Status != 200 {
			return "setup", "source PUT answered " + r.Short()
		}
		r = w.Do(drv.Req{Method: "PUT", Path: "/aaa/" + cs.key, Header: drv.H("X-Amz-Copy-Source", "/aaa/"+src, "x-amz-meta-a", "dst-value", "Content-Type", "text/dst", "x-amz-metadata-directive", "REPLACE")})
		evals++
		if r.Status != 200 || r.Panic != "" {
			return "upload-status", "copy answered " + r.Short()
		}
		if n := r.XML(); n != nil {
			upETag = n.T("ETag")
		}
		sv := w.Get("aaa", src)
		evals++
		if f, m := checkObjView(sv, &model.Obj{Body: body, Meta: map[string]string{"x-amz-meta-a": "src-value", "content-type": "text/src", "content-disposition": "inline"}}, false); f != "" {
			return "source-after-copy-" + f, "source of the copy: " + m
		}
		sh := w.Head("aaa", src)
		evals++
		if f, m := checkObjView(sh, &model.Obj{Body: body, Meta: map[string]string{"x-amz-meta-a": "src-value", "content-type": "text/src"}}, true); f != "" {
			return "source-after-copy-head-" + f, "source of the copy: " + m
		}
		wantMeta = map[string]string{"x-amz-meta-a": "dst-value", "content-type": "text/dst"}
	case "backend-api", "backend-api-nil":
		var meta map[string]string
		if cs.path == "backend-api" {
			meta = map[string]string{}
			for k, v := range cs.meta {
				// header names in their canonical form, as the front end hands them to a backend
				meta[http.CanonicalHeaderKey(k)] = v
			}
		}
		var perr error
		func() {
			defer func() {
				if p := recover(); p != nil {
					perr = fmt.Errorf("panic: %v", p)
				}
			}()
			_, perr = w.Backend.PutObject("aaa", cs.key, meta, bytes.NewReader(body), int64(len(body)))
		}()
		evals++
		if perr != nil {
			f := "upload-error"
			if strings.HasPrefix(perr.Error(), "panic") {
				f = "upload-panic"
			}
			return f, "Backend.PutObject: " + perr.Error()
		}
		// Go API read back
		obj, gerr := w.Backend.GetObject("aaa", cs.key, nil)
		evals++
		if gerr != nil {
			return "api-get", "Backend.GetObject: " + gerr.Error()
		}
		got, _ := io.ReadAll(obj.Contents)
		obj.Contents.Close()
		if !bytes.Equal(got, body) || obj.Size != int64(len(body)) || `"`+fmt.Sprintf("%x", obj.Hash)+`"` != drv.ETagOf(body) {
			return "api-get", fmt.Sprintf("Backend.GetObject: %d bytes size=%d hash=%x", len(got), obj.Size, obj.Hash)
		}
		for k, v := range cs.meta {
			if obj.Metadata[http.CanonicalHeaderKey(k)] != v {
				return "api-meta", fmt.Sprintf("Backend.GetObject metadata %s=%q want %q", k, obj.Metadata[http.CanonicalHeaderKey(k)], v)
			}
		}
		ho, herr := w.Backend.HeadObject("aaa", cs.key)
		evals++
		if herr != nil || ho.Size != int64(len(body)) || `"`+fmt.Sprintf("%x", ho.Hash)+`"` != drv.ETagOf(body) {
			return "api-head", fmt.Sprintf("Backend.HeadObject: err=%v", herr)
		}
		ho.Contents.Close()
	}
	if upETag != "" && upETag != drv.ETagOf(body) {
		return "upload-etag", fmt.Sprintf("upload response ETag %s want %s", upETag, drv.ETagOf(body))
	}
	if cs.path != "backend-api" && cs.path != "backend-api-nil" && upETag == "" {
		return "upload-etag", "upload response carries no ETag"
	}
	if cs.sibling != "" {
		// upload the sibling with the same size but different bytes and metadata, then re-read the first key
		sb := c01Body(cs.size, "ff")
		r := w.Do(drv.Req{Method: "PUT", Path: "/aaa/" + cs.sibling, Body: sb, Header: drv.H("x-amz-meta-a", "second", "Content-Type", "text/second")})
		evals++
		if r.Status != 200 {
			return "sibling-upload", "sibling PUT answered " + r.Short()
		}
		sv := w.Get("aaa", cs.sibling)
		evals++
		if f, m := checkObjView(sv, &model.Obj{Body: sb, Meta: map[string]string{"x-amz-meta-a": "second"}}, false); f != "" {
			return "sibling-get-" + f, "sibling key: " + m
		}
	}
	if !cs.kind.IsSingle() {
		// a request that is refused in between (the bucket is not empty) is no part of the object's history
		if r := w.Do(drv.Req{Method: "DELETE", Path: "/aaa"}); r.Status < 400 || r.Panic != "" {
			return "bucket-delete-accepted", "DELETE of the bucket holding the object answered " + r.Short()
		}
		evals++
	}
	want := &model.Obj{Body: body, Meta: wantMeta}
	for i := 0; i < 2; i++ {
		v := w.Get("aaa", cs.key)
		evals++
		if f, m := checkObjView(v, want, false); f != "" {
			return "get-" + f, m
		}
	}
	hv := w.Head("aaa", cs.key)
	evals++
	if f, m := checkObjView(hv, want, true); f != "" {
		return "head-" + f, m
	}
	// HEAD reports the same entity headers as GET
	gv := w.Get("aaa", cs.key)
	evals++
	for _, h := range []string{"Content-Type", "Content-Encoding", "Content-Disposition", "Last-Modified", "Cache-Control", "Expires"} {
		if fmt.Sprint(gv.Hdr[h]) != fmt.Sprint(hv.Hdr[h]) {
			return "head-entity-header-differs", fmt.Sprintf("%s is %q on GET and %q on HEAD", h, gv.Hdr[h], hv.Hdr[h])
		}
	}
	if cs.start == "existing" && oldView.Status == 200 && oldView.ETag != drv.ETagOf(body) {
		// a client revalidating the replaced object: its validator no longer matches, so
		// it must get the new bytes whatever the (one-second) timestamps say
		r := w.Do(drv.Req{Method: "GET", Path: "/aaa/" + cs.key, Header: drv.H("If-None-Match", oldView.ETag, "If-Modified-Since", firstOr(oldView.Hdr["Last-Modified"], ""))})
		evals++
		if cv := drv.ViewOf(r); cv.Status != 200 || !bytes.Equal(cv.Body, body) {
			return "conditional-get-stale", fmt.Sprintf("GET If-None-Match:<ETag of the replaced object> If-Modified-Since:<its Last-Modified> answers %d with %d body bytes, want 200 with the new object", cv.Status, len(cv.Body))
		}
	}
	lp := w.List("aaa", "")
	evals++
	found := false
	for _, e := range lp.Entries {
		if e.Key == cs.key {
			found = true
			if e.Size != int64(len(body)) || e.ETag != drv.ETagOf(body) {
				return "list-entry", fmt.Sprintf("ListObjects entry size=%d etag=%s", e.Size, e.ETag)
			}
		}
	}
	if !found {
		return "list-entry", fmt.Sprintf("key missing from ListObjects (%d %s)", lp.Status, lp.Code)
	}
	return "", ""
}

func init() { Registry["C01"] = runC01 }
