package props

import (
	"bytes"
	"crypto/md5"
	"encoding/base64"
	"fmt"
	"io"
	"strconv"
	"strings"

	"github.com/johannesboyne/gofakes3"

	"verifmc/drv"
	"verifmc/engine"
	"verifmc/model"
)

// C12 — aws-chunked decoding (inputmc, deviations = short reads).

func compositions(n int) [][]int {
	if n == 0 {
		return [][]int{{}}
	}
	var out [][]int
	for mask := 0; mask < 1<<(n-1); mask++ {
		var c []int
		run := 1
		for i := 0; i < n-1; i++ {
			if mask&(1<<i) != 0 {
				c = append(c, run)
				run = 1
			} else {
				run++
			}
		}
		c = append(c, run)
		out = append(out, c)
	}
	return out
}

// interesting cut positions: around every structural boundary of the stream.
func chunkBoundaries(sizes []int) []int {
	var b []int
	pos := 0
	add := func(p int) {
		for d := -2; d <= 2; d++ {
			b = append(b, p+d)
		}
	}
	for _, sz := range append(append([]int{}, sizes...), 0) {
		hdr := len(strconv.FormatInt(int64(sz), 16)) + 1 + 16 + 64 + 2
		add(pos)
		add(pos + hdr - 2)
		add(pos + hdr)
		add(pos + hdr + sz)
		pos += hdr + sz + 2
	}
	return b
}

func uniq(xs []int, max int) []int {
	seen := map[int]bool{}
	var out []int
	for _, x := range xs {
		if x > 0 && x < max && !seen[x] {
			seen[x] = true
			out = append(out, x)
		}
	}
	return out
}

// drain reads the decoder with a consumer buffer of size b.
func drain(r io.Reader, b int) ([]byte, error) {
	var out []byte
	buf := make([]byte, b)
	for i := 0; i < 1<<20; i++ {
		n, err := r.Read(buf)
		out = append(out, buf[:n]...)
		if err != nil {
			return out, err
		}
	}
	return out, fmt.Errorf("decoder does not terminate")
}

func runC12(c *engine.Ctx) {
	c.Rule = "narrow seam: case = (payload, chunk-size composition, transport fragmentation: every single cut point, every pair of cut points around chunk boundaries, uniform 1/2/3/7/85/86-byte reads, each with and without data+EOF, consumer buffer size) on the real chunkedReader, oracle: bytes delivered until EOF == payload; handler seam: streaming PUT on every backend for a payload x chunk-size x fragmentation product, oracle: 200 and GET == payload; malformed streams must be rejected with the key unchanged; distinct_nontrivial = distinct (payload length, composition, buffer size) triples decoded correctly"
	c.Assumptions = append(c.Assumptions, "truncation after the last payload byte (inside the terminator) may be accepted or rejected", "chunk signatures are not verified by the implementation and are a fixed dummy")
	maxN := 4
	bufs := []int{1, 2, 3, 4, 5, 7, 8, 16, 33, 85, 86, 512, 1 << 16}
	if !quick(c) {
		maxN = 6
		bufs = []int{1, 2, 3, 4, 5, 6, 7, 8, 9, 10, 11, 12, 13, 14, 15, 16, 31, 32, 33, 85, 86, 512, 1 << 16}
	}
	c.Bounds["narrow_payload_max"] = maxN
	c.Bounds["consumer_buffers"] = bufs
	type ncase struct {
		payload []byte
		sizes   []int
	}
	var cases []ncase
	for n := 0; n <= maxN; n++ {
		pats := [][]byte{bytes.Repeat([]byte("a"), n)}
		alt := []byte("0;\r\n0;")[:min(n, 6)]
		if n > 0 {
			pats = append(pats, alt)
		}
		for _, p := range pats {
			for _, comp := range compositions(n) {
				cases = append(cases, ncase{p, comp})
			}
		}
	}
	// one large-chunk family: chunk bigger than the consumer buffer with short reads
	big := make([]byte, 300)
	for i := range big {
		big[i] = byte('A' + i%26)
	}
	cases = append(cases, ncase{big, []int{300}}, ncase{big, []int{100, 200}}, ncase{big, []int{299, 1}})
	engine.ParallelFor(len(cases), func(_, ci int) {
		cs := cases[ci]
		enc := drv.EncodeChunked(cs.payload, cs.sizes)
		var frags []func() *drv.FragReader
		var fdesc []string
		addFrag := func(desc string, cuts []int, every int) {
			for _, eof := range []bool{false, true} {
				eof := eof
				frags = append(frags, func() *drv.FragReader { return drv.NewFrag(enc, cuts, every, eof) })
				fdesc = append(fdesc, fmt.Sprintf("%s eof-with-data=%v", desc, eof))
			}
		}
		addFrag("none", nil, 0)
		for _, ev := range []int{1, 2, 3, 7, 85, 86} {
			addFrag(fmt.Sprintf("every-%d", ev), nil, ev)
		}
		if len(enc) <= 700 {
			for p := 1; p < len(enc); p++ {
				addFrag(fmt.Sprintf("cut@%d", p), []int{p}, 0)
			}
		}
		bnd := uniq(chunkBoundaries(cs.sizes), len(enc))
		if len(cs.sizes) <= 4 {
			for i := 0; i < len(bnd); i++ {
				for j := i + 1; j < len(bnd); j++ {
					a, b := bnd[i], bnd[j]
					if a > b {
						a, b = b, a
					}
					addFrag(fmt.Sprintf("cuts@%d,%d", a, b), []int{a, b}, 0)
				}
			}
		}
		for fi, mk := range frags {
			for _, b := range bufs {
				dec := gofakes3.VerifNewChunkedReader(mk())
				got, err := drain(dec, b)
				c.Add(0, 0, 0, 1)
				if err == io.EOF && bytes.Equal(got, cs.payload) {
					c.Distinct(fmt.Sprintf("%d|%v|%d", len(cs.payload), cs.sizes, b))
					continue
				}
				cond := "buffer>=chunk"
				maxChunk := 0
				for _, s := range cs.sizes {
					if s > maxChunk {
						maxChunk = s
					}
				}
				if b < maxChunk {
					cond = "buffer<chunk"
				}
				fragClass := strings.SplitN(fdesc[fi], " ", 2)[0]
				if strings.HasPrefix(fragClass, "cut") {
					fragClass = "cuts"
				} else if strings.HasPrefix(fragClass, "every") {
					fragClass = "uniform"
				}
				c.Report(&engine.Violation{Sig: sig("C12", "decoder", "decode", cond, "frag="+fragClass), World: "chunkedReader",
					History: []string{fmt.Sprintf("payload=%q chunks=%v frag=%s buffer=%d", clipBytes(cs.payload), cs.sizes, fdesc[fi], b)},
					Msg:     fmt.Sprintf("decoder delivered %s err=%v, want %s then EOF", clipBytes(got), err, clipBytes(cs.payload))})
			}
		}
	})
	c.Add(int64(len(cases)), 0, 0, 0)
	c.AddSample(map[string]interface{}{"seam": "narrow", "payload": "aaa", "chunks": []int{1, 2}, "fragmentation": "cut@86", "buffer": 2})

	// ---- handler seam ----
	kinds := drv.MemFsKinds
	payloadSizes := []int{0, 1, 100, 32767, 32768, 32769, 70000}
	chunkSizes := []int{1, 7, 8192, 32767, 32768, 32769, 65536, -1}
	if !quick(c) {
		kinds = drv.AllKinds
		payloadSizes = append(payloadSizes, 65536, 200000, 3<<20)
	}
	type hcase struct {
		kind    drv.Kind
		payload int
		chunk   int
		frag    string
	}
	var hcases []hcase
	for _, k := range kinds {
		for _, ps := range payloadSizes {
			for _, cz := range chunkSizes {
				if cz > 0 && ps/cz > 5000 {
					continue // 1-byte chunks only for small payloads
				}
				if cz > ps && cz != -1 && ps != 0 {
					continue
				}
				for _, fr := range []string{"none", "every-1", "halves", "every-4096", "every-1000", "header-cuts"} {
					if fr == "every-1" && ps > 40000 {
						continue
					}
					hcases = append(hcases, hcase{k, ps, cz, fr})
				}
			}
		}
	}
	c.Bounds["handler_payload_sizes"] = payloadSizes
	c.Bounds["handler_chunk_sizes"] = chunkSizes
	mkPayload := func(n int) []byte {
		p := make([]byte, n)
		for i := range p {
			p[i] = byte(i*7 + i/251)
		}
		return p
	}
	split := func(n, cz int) []int {
		if n == 0 {
			return nil
		}
		if cz <= 0 || cz >= n {
			return []int{n}
		}
		var s []int
		for n > 0 {
			k := cz
			if k > n {
				k = n
			}
			s = append(s, k)
			n -= k
		}
		return s
	}
	streamHdr := func(decoded int) [][2]string {
		return drv.H("X-Amz-Content-Sha256", "STREAMING-AWS4-HMAC-SHA256-PAYLOAD", "X-Amz-Decoded-Content-Length", strconv.Itoa(decoded))
	}
	newWCfg := func(k drv.Kind, noIntegrity bool) *drv.World {
		w, err := drv.NewWorld(drv.Config{Kind: k, NoIntegrity: noIntegrity})
		if err != nil {
			engine.HarnessError("C12: %v", err)
		}
		if !k.IsSingle() {
			w.Do(drv.Req{Method: "PUT", Path: "/aaa"})
		}
		return w
	}
	newW := func(k drv.Kind) *drv.World { return newWCfg(k, false) }
	engine.ParallelFor(len(hcases), func(_, i int) {
		hc := hcases[i]
		payload := mkPayload(hc.payload)
		sizes := split(hc.payload, hc.chunk)
		enc := drv.EncodeChunked(payload, sizes)
		var fr *drv.FragReader
		switch hc.frag {
		case "none":
			fr = drv.NewFrag(enc, nil, 0, false)
		case "every-1":
			fr = drv.NewFrag(enc, nil, 1, false)
		case "halves":
			fr = drv.NewFrag(enc, []int{len(enc) / 2}, 0, true)
		case "every-4096":
			fr = drv.NewFrag(enc, nil, 4096, false)
		case "every-1000":
			fr = drv.NewFrag(enc, nil, 1000, true)
		case "header-cuts":
			fr = drv.NewFrag(enc, uniq(chunkBoundaries(sizes[:min(len(sizes), 50)]), len(enc)), 0, false)
		}
		w := newW(hc.kind)
		defer w.Close()
		r := w.Do(drv.Req{Method: "PUT", Path: "/aaa/k", BodyReader: fr, DeclLen: ptr64(int64(len(enc))), Header: streamHdr(len(payload))})
		g := w.Get("aaa", "k")
		c.Add(0, 1, 1, 2)
		c.Count(string(hc.kind), "streaming_puts", 1)
		if r.Status == 200 && r.Panic == "" && g.Status == 200 && bytes.Equal(g.Body, payload) && g.ETag == drv.ETagOf(payload) && r.Header.Get("ETag") == drv.ETagOf(payload) {
			return
		}
		cond := "chunk<=32k"
		mc := 0
		for _, s := range sizes {
			if s > mc {
				mc = s
			}
		}
		if mc > 32768 {
			cond = "chunk>32k"
		}
		fc := "frag=none"
		if hc.frag != "none" {
			fc = "frag=short-reads"
		}
		c.Report(&engine.Violation{Sig: sig("C12", backendClass(hc.kind), "streaming-put", cond, fc), World: string(hc.kind),
			History: []string{fmt.Sprintf("payload=%d bytes chunk-size=%d frag=%s", hc.payload, hc.chunk, hc.frag)},
			Msg:     fmt.Sprintf("streaming PUT of %d bytes in chunks of %d (%s) on %s answered %s; GET afterwards: %s (want %d bytes, etag %s)", hc.payload, hc.chunk, hc.frag, hc.kind, r.Short(), g.String(), len(payload), drv.ETagOf(payload))})
	})

	// ---- malformed streams ----
	type mcase struct {
		kind  drv.Kind
		name  string
		start string // absent | existing
		big   bool   // 1 MiB + 4 KiB payload instead of 20 bytes
	}
	malformed := map[string]func(payload []byte, enc []byte) (body []byte, decoded int){
		"corrupt-hex-size": func(p, e []byte) ([]byte, int) { b := append([]byte{}, e...); b[0] = 'z'; return b, len(p) },
		"missing-semicolon": func(p, e []byte) ([]byte, int) {
			i := bytes.IndexByte(e, ';')
			return append(append([]byte{}, e[:i]...), e[i+1:]...), len(p)
		},
		"missing-crlf-after-data": func(p, e []byte) ([]byte, int) {
			i := bytes.Index(e, []byte("\r\n")) + 2 + 10
			return append(append([]byte{}, e[:i]...), e[i+2:]...), len(p)
		},
		"decoded-length+1":  func(p, e []byte) ([]byte, int) { return e, len(p) + 1 },
		"decoded-length=0":  func(p, e []byte) ([]byte, int) { return e, 0 },
		"decoded-length=1":  func(p, e []byte) ([]byte, int) { return e, 1 },
		"decoded-length*2":  func(p, e []byte) ([]byte, int) { return e, 2 * len(p) },
		"decoded-length=10": func(p, e []byte) ([]byte, int) { return e, 10 }, // exactly the first chunk
		"trailing-junk": func(p, e []byte) ([]byte, int) {
			return append(append([]byte{}, e...), []byte("junkjunkjunk")...), len(p)
		},
		"two-streams-declared-first": func(p, e []byte) ([]byte, int) {
			return append(append([]byte{}, e...), e...), len(p)
		},
		"zero-chunk-in-the-middle-declared-prefix": func(p, e []byte) ([]byte, int) {
			first := drv.EncodeChunked(p[:10], []int{10})
			return append(first[:len(first)-2], e...), 10 // zero chunk, then a complete stream follows
		},
		"decoded-length-1": func(p, e []byte) ([]byte, int) { return e, len(p) - 1 },
		// the payload is complete and as long as declared, but the framing is not a valid stream
		"no-final-chunk": func(p, e []byte) ([]byte, int) {
			return e[:bytes.LastIndex(e, []byte("0;chunk-signature="))], len(p)
		},
		"no-final-chunk-nor-last-delimiter": func(p, e []byte) ([]byte, int) {
			return e[:bytes.LastIndex(e, []byte("0;chunk-signature="))-2], len(p)
		},
		"final-chunk-cut-inside-its-signature": func(p, e []byte) ([]byte, int) {
			return e[:bytes.LastIndex(e, []byte("0;chunk-signature="))+24], len(p)
		},
		"last-chunk-declares-more-than-it-carries": func(p, e []byte) ([]byte, int) {
			cut := e[:bytes.LastIndex(e, []byte("0;chunk-signature="))-2]
			i := bytes.LastIndex(cut, []byte(";chunk-signature="))
			j := bytes.LastIndex(cut[:i], []byte("\n")) + 1
			return append(append(append([]byte{}, cut[:j]...), []byte("64")...), cut[i:]...), len(p)
		},
		"wrong-delimiter-after-chunk-data": func(p, e []byte) ([]byte, int) {
			b := append([]byte{}, e...)
			i := bytes.Index(b, []byte("\r\n")) + 2 + 10 // start of the delimiter after the first chunk's data
			if len(p) > 20 {
				i = bytes.Index(b, []byte("\r\n")) + 2 + 1<<16
			}
			b[i], b[i+1] = 'X', 'X'
			return b, len(p)
		},
		"signature-field-is-garbage": func(p, e []byte) ([]byte, int) {
			b := append([]byte{}, e...)
			i := bytes.Index(b, []byte("chunk-signature="))
			for k := i; k < i+16+64; k++ {
				b[k] = 'Z'
			}
			return b, len(p)
		},
		"signature-too-short": func(p, e []byte) ([]byte, int) {
			i := bytes.Index(e, []byte("chunk-signature=")) + 16
			return append(append([]byte{}, e[:i]...), e[i+4:]...), len(p) // 60 hex digits; the decoder would eat payload bytes
		},
		"negative-chunk-size": func(p, e []byte) ([]byte, int) {
			return append([]byte("-a;chunk-signature=0123456789abcdef0123456789abcdef0123456789abcdef0123456789abcdef\r\n"), e...), len(p)
		},
		"plus-sign-chunk-size": func(p, e []byte) ([]byte, int) {
			return append([]byte("+"), e...), len(p)
		},
		"more-chunks-after-the-final-chunk-declared-total": func(p, e []byte) ([]byte, int) {
			return append(append([]byte{}, e...), drv.EncodeChunked([]byte("world"), []int{5})...), len(p) + 5
		},
		"final-chunk-first-then-the-stream": func(p, e []byte) ([]byte, int) {
			return append(drv.EncodeChunked(nil, nil), e...), len(p)
		},
		"chunk-size-larger-than-data": func(p, e []byte) ([]byte, int) {
			return drv.EncodeChunked(p, []int{len(p)})[:0], len(p)
		},
	}
	delete(malformed, "chunk-size-larger-than-data")
	var mnames []string
	for n := range malformed {
		mnames = append(mnames, n)
	}
	sortStrings(mnames)
	payload := mkPayload(20)
	enc := drv.EncodeChunked(payload, []int{10, 10})
	var mcases []mcase
	for _, k := range kinds {
		for _, st := range []string{"absent", "existing"} {
			for _, n := range mnames {
				mcases = append(mcases, mcase{k, n, st, false})
				mcases = append(mcases, mcase{k, n, st, true})
			}
			// truncation at every byte position before the last payload byte
			lastPayload := bytes.LastIndex(enc, payload[10:]) + 9
			for cut := 0; cut <= lastPayload; cut++ {
				mcases = append(mcases, mcase{k, "truncate@" + strconv.Itoa(cut), st, false})
			}
		}
	}
	payloadBig := mkPayload(1<<20 + 4096)
	encBig := drv.EncodeChunked(payloadBig, []int{1 << 16, 1<<20 - 1<<16, 4096})
	engine.ParallelFor(len(mcases), func(_, i int) {
		mc := mcases[i]
		payload, enc := payload, enc
		if mc.big {
			payload, enc = payloadBig, encBig
		}
		w := newW(mc.kind)
		defer w.Close()
		old := []byte("previous-content")
		if mc.start == "existing" {
			w.Do(drv.Req{Method: "PUT", Path: "/aaa/k", Body: old, Header: drv.H("x-amz-meta-a", "1")})
		}
		before := w.Snapshot(drv.SnapOpts{NoRaw: true})
		var body []byte
		decoded := len(payload)
		if strings.HasPrefix(mc.name, "truncate@") {
			cut, _ := strconv.Atoi(mc.name[len("truncate@"):])
			body = enc[:cut]
		} else {
			body, decoded = malformed[mc.name](payload, enc)
		}
		var rdr io.Reader = drv.NewFrag(body, nil, 0, false)
		if strings.HasPrefix(mc.name, "truncate@") {
			f := drv.NewFrag(body, nil, 0, false)
			f.FailAt, f.Err = len(body), io.ErrUnexpectedEOF
			f.Data = append(append([]byte{}, body...), 0)
			rdr = f
		}
		r := w.Do(drv.Req{Method: "PUT", Path: "/aaa/k", BodyReader: rdr, DeclLen: ptr64(int64(len(enc))), Header: streamHdr(decoded)})
		after := w.Snapshot(drv.SnapOpts{NoRaw: true})
		c.Add(0, 1, 1, 1)
		name := mc.name
		if strings.HasPrefix(name, "truncate@") {
			name = "truncated"
		}
		if mc.big {
			name += "(1MiB+4KiB)"
		}
		if r.Panic != "" {
			c.Report(&engine.Violation{Sig: sig("C12", backendClass(mc.kind), "malformed-stream", name, "panic@"+drv.PanicFrame(r.Panic)), World: string(mc.kind), History: []string{mc.name, mc.start}, Msg: firstLine(r.Panic)})
			return
		}
		if r.Status < 300 {
			c.Report(&engine.Violation{Sig: sig("C12", backendClass(mc.kind), "malformed-stream", name, "accepted"), World: string(mc.kind), History: []string{mc.name, "start=" + mc.start},
				Msg: fmt.Sprintf("malformed aws-chunked stream (%s) accepted with %s on %s", mc.name, r.Short(), mc.kind)})
			return
		}
		if before != after {
			c.Report(&engine.Violation{Sig: sig("C12", backendClass(mc.kind), "malformed-stream", name, "state-changed", "start="+mc.start), World: string(mc.kind), History: []string{mc.name, "start=" + mc.start},
				Msg: fmt.Sprintf("rejected stream (%s -> %s) changed the stored state on %s:\nbefore:\n%s\nafter:\n%s", mc.name, r.Short(), mc.kind, before, after)})
		}
	})
	// ---- part uploads: the framing applies to them as to object uploads ----
	{
		type pcase struct {
			kind    drv.Kind
			n, cz   int
			every   int
			decoded int  // declared decoded length relative to n: 0 exact, +1, -1
			noInteg bool // server built WithIntegrityCheck(false): the framing is decoded all the same
		}
		var pcs []pcase
		for _, k := range kinds {
			for _, n := range []int{1, 5, 1024, 70000} {
				for _, cz := range []int{1, 3, 1000, 65536} {
					if cz > n && cz != 3 {
						continue
					}
					for _, ev := range []int{0, 1, 7} {
						if n > 2000 && ev == 1 {
							continue
						}
						pcs = append(pcs, pcase{k, n, cz, ev, 0, false})
						if ev == 0 && cz == 3 {
							pcs = append(pcs, pcase{k, n, cz, ev, 0, true})
						}
					}
				}
			}
			pcs = append(pcs, pcase{k, 20, 10, 0, +1, false}, pcase{k, 20, 10, 0, -1, false}, pcase{k, 20, 10, 0, +1, true})
		}
		engine.ParallelFor(len(pcs), func(_, i int) {
			pc := pcs[i]
			w := newWCfg(pc.kind, pc.noInteg)
			defer w.Close()
			payload := mkPayload(pc.n)
			enc := drv.EncodeChunked(payload, split(pc.n, pc.cz))
			r0 := w.Do(drv.Req{Method: "POST", Path: "/aaa/mp", Query: "uploads"})
			id := ""
			if x := r0.XML(); x != nil {
				id = x.T("UploadId")
			}
			if id == "" {
				engine.HarnessError("C12 initiate: %s", r0.Short())
			}
			rp := w.Do(drv.Req{Method: "PUT", Path: "/aaa/mp", Query: drv.Q("uploadId", id, "partNumber", "1"), BodyReader: drv.NewFrag(enc, nil, pc.every, false), DeclLen: ptr64(int64(len(enc))), Header: streamHdr(pc.n + pc.decoded)})
			c.Add(0, 1, 1, 1)
			hist := []string{fmt.Sprintf("%s part upload: payload %d bytes, chunks of %d, reads of %d, declared %+d, integrity-check-off=%v", pc.kind, pc.n, pc.cz, pc.every, pc.decoded, pc.noInteg)}
			report := func(field, msg string) {
				c.Report(&engine.Violation{Sig: sig("C12", "any", "streaming-part", field), World: string(pc.kind), History: hist, Msg: hist[0] + ": " + msg})
			}
			if rp.Panic != "" {
				report("panic@"+drv.PanicFrame(rp.Panic), firstLine(rp.Panic))
				return
			}
			if pc.decoded != 0 {
				pp := w.ListParts("aaa", "mp", id, "")
				if rp.Status < 300 {
					report("length-mismatch-accepted", "a part whose decoded length differs from the declared one was accepted with "+rp.Short())
				} else if len(pp.Parts) != 0 {
					report("state-changed", "the refused part is listed")
				}
				return
			}
			if rp.Status != 200 {
				report("refused-valid", "a valid streaming part upload answered "+rp.Short())
				return
			}
			pp := w.ListParts("aaa", "mp", id, "")
			if len(pp.Parts) != 1 || pp.Parts[0].Size != int64(pc.n) || pp.Parts[0].ETag != drv.ETagOf(payload) {
				report("stored-part", fmt.Sprintf("ListParts shows %+v, want one part of %d bytes with the MD5 of the payload", pp.Parts, pc.n))
				return
			}
			cr := w.Do(drv.Req{Method: "POST", Path: "/aaa/mp", Query: drv.Q("uploadId", id), Body: completeBody([]model.CPart{{N: 1, ETag: drv.ETagOf(payload)}})})
			v := w.Get("aaa", "mp")
			if cr.Status != 200 || v.Status != 200 || !bytes.Equal(v.Body, payload) {
				report("completed-object", fmt.Sprintf("complete answered %s, GET %d with %d bytes (want the %d payload bytes)", cr.Short(), v.Status, len(v.Body), pc.n))
			}
		})
	}
	// ---- a well-formed stream after a broken one: nothing of the broken request's decoding
	// (position inside a chunk, digest state) may reach a later request ----
	for _, k := range kinds {
		w := newW(k)
		payload := mkPayload(40)
		enc := drv.EncodeChunked(payload, []int{25, 15})
		cut := bytes.Index(enc, payload[:25]) + 10 // inside the first chunk's data
		for round := 0; round < 4; round++ {
			f := drv.NewFrag(enc[:cut], nil, 0, false)
			f.FailAt, f.Err = cut, io.ErrUnexpectedEOF
			f.Data = append(append([]byte{}, enc[:cut]...), 0)
			rb := w.Do(drv.Req{Method: "PUT", Path: "/aaa/broken", BodyReader: f, DeclLen: ptr64(int64(len(enc))), Header: streamHdr(len(payload))})
			sum := md5.Sum(payload)
			rg := w.Do(drv.Req{Method: "PUT", Path: "/aaa/good", Body: enc, Header: append(streamHdr(len(payload)), [2]string{"Content-MD5", base64.StdEncoding.EncodeToString(sum[:])})})
			v := w.Get("aaa", "good")
			c.Add(0, 3, 1, 3)
			if rb.Status < 400 || rg.Status != 200 || v.Status != 200 || !bytes.Equal(v.Body, payload) || v.ETag != drv.ETagOf(payload) {
				c.Report(&engine.Violation{Sig: sig("C12", "any", "stream-after-broken-stream"), World: string(k), History: []string{"PUT cut inside a chunk", "PUT well-formed stream", "GET"},
					Msg: fmt.Sprintf("on %s (round %d): a stream cut inside a chunk answered %s; the well-formed stream sent next answered %s and GET then gives %d, %d bytes, ETag %s (want 200, 200 with the 40 payload bytes)", k, round, rb.Short(), rg.Short(), v.Status, len(v.Body), v.ETag)})
				break
			}
			w.Do(drv.Req{Method: "DELETE", Path: "/aaa/good"})
		}
		w.Close()
	}
	// ---- how the declared decoded length is written ----
	// A declaration made of decimal digits means that decimal number (leading zeros or not):
	// if it differs from the stream's length the upload must be refused. Other spellings may be
	// refused or understood, but an accepted upload must be the payload.
	{
		p8 := mkPayload(8)
		e8 := drv.EncodeChunked(p8, []int{3, 5})
		forms := []string{"8", "08", "010", "0010", "0x8", "0X8", "0o10", "0b1000", "1e1", "8.0", " 8", "+8", "-8", "９"}
		type dcase struct {
			kind drv.Kind
			form string
		}
		var dcs []dcase
		for _, k := range kinds {
			for _, f := range forms {
				dcs = append(dcs, dcase{k, f})
			}
		}
		engine.ParallelFor(len(dcs), func(_, i int) {
			dc := dcs[i]
			w := newW(dc.kind)
			defer w.Close()
			w.Do(drv.Req{Method: "PUT", Path: "/aaa/k", Body: []byte("previous-content")})
			before := w.Snapshot(drv.SnapOpts{NoRaw: true})
			r := w.Do(drv.Req{Method: "PUT", Path: "/aaa/k", Body: e8, Header: drv.H("X-Amz-Content-Sha256", "STREAMING-AWS4-HMAC-SHA256-PAYLOAD", "X-Amz-Decoded-Content-Length", dc.form)})
			c.Add(0, 1, 1, 1)
			digits := dc.form != ""
			for _, ch := range dc.form {
				if ch < '0' || ch > '9' {
					digits = false
				}
			}
			mustReject := false
			if digits {
				v, _ := strconv.Atoi(dc.form)
				mustReject = v != len(p8)
			}
			report := func(field, msg string) {
				c.Report(&engine.Violation{Sig: sig("C12", backendClass(dc.kind), "declared-length-form", field), World: string(dc.kind), History: []string{"X-Amz-Decoded-Content-Length: " + strconv.Quote(dc.form) + " for an 8-byte stream"},
					Msg: fmt.Sprintf("X-Amz-Decoded-Content-Length %q for a stream of 8 bytes on %s: %s", dc.form, dc.kind, msg)})
			}
			switch {
			case r.Panic != "":
				report("panic@"+drv.PanicFrame(r.Panic), firstLine(r.Panic))
			case r.Status < 300 && mustReject:
				report("accepted-wrong-decimal", "accepted with "+r.Short()+" although the declaration is the decimal number "+dc.form)
			case r.Status < 300:
				if v := w.Get("aaa", "k"); v.Status != 200 || !bytes.Equal(v.Body, p8) {
					report("accepted-but-not-the-payload", "accepted, but GET answers "+v.String())
				}
			default:
				if after := w.Snapshot(drv.SnapOpts{NoRaw: true}); after != before {
					report("state-changed", "refused with "+r.Short()+" but the stored state changed")
				}
			}
		})
	}
	c.AddSample(map[string]interface{}{"seam": "handler", "payload_bytes": 70000, "chunk": 32769, "fragmentation": "every-1000"})
}

func backendClass(k drv.Kind) string {
	switch {
	case k.IsFs():
		return "fs"
	}
	return string(k)
}

func sortStrings(s []string) {
	for i := 1; i < len(s); i++ {
		for j := i; j > 0 && s[j] < s[j-1]; j-- {
			s[j], s[j-1] = s[j-1], s[j]
		}
	}
}

func init() { Registry["C12"] = runC12 }
