// Command verifmc runs one property check (see /verif/DESIGN.md).
package main

import (
	"encoding/json"
	"flag"
	"fmt"
	"os"
	"strconv"
	"time"

	"verifmc/drv"
	"verifmc/engine"
	"verifmc/props"
)

func main() {
	prop := flag.String("prop", "", "property id (C01..C17)")
	tier := flag.String("tier", "quick", "quick|thorough")
	root := flag.String("root", "/verif", "verification root (evidence, replays, known findings)")
	scratch := flag.String("scratch", "", "scratch directory for persistent worlds")
	budget := flag.Duration("budget", 0, "internal wall-clock cap (0 = tier default)")
	replay := flag.String("replay", "", "replay file")
	sub := flag.String("sub", "", "internal: sub-command for worker processes")
	flag.Parse()
	seed := 0
	if s := os.Getenv("VERIF_SEED"); s != "" {
		seed, _ = strconv.Atoi(s)
	}
	if *scratch == "" {
		d, err := os.MkdirTemp("/dev/shm", "verifmc.")
		if err != nil {
			d, err = os.MkdirTemp("", "verifmc.")
			if err != nil {
				engine.HarnessError("no scratch dir: %v", err)
			}
		}
		*scratch = d
		defer os.RemoveAll(d)
	}
	drv.SetScratch(*scratch)
	if *sub != "" {
		os.Exit(props.RunSub(*sub, flag.Args()))
	}
	run, ok := props.Registry[*prop]
	if !ok {
		fmt.Fprintf(os.Stderr, "unknown property %q\n", *prop)
		os.Exit(2)
	}
	c := engine.NewCtx(*root, *prop, *tier, seed)
	if *budget == 0 {
		if *tier == "thorough" {
			*budget = 40 * time.Minute
		} else {
			*budget = 8 * time.Minute
		}
	}
	c.Deadline = time.Now().Add(*budget)
	c.ReplayFile = *replay
	if *replay != "" {
		b, err := os.ReadFile(*replay)
		if err != nil {
			engine.HarnessError("cannot read replay file: %v", err)
		}
		var v engine.Violation
		if err := json.Unmarshal(b, &v); err != nil {
			engine.HarnessError("cannot parse replay file: %v", err)
		}
		c.Replay = &v
		fmt.Printf("replaying %s: %s\n  stored message: %s\n  stored history: %v\n", v.Sig, v.Spec, v.Msg, v.History)
	}
	run(c)
	code := c.Finish()
	os.RemoveAll(*scratch)
	os.Exit(code)
}
