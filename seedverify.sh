#!/bin/bash
# seedverify.sh <seed-dir> — confirms in a scratch worktree: suite passes with the patch, demo fails with it and passes without.
set -u
. /verif/env.sh
D=$(cd "$1" && pwd)
WT=$(mktemp -d /tmp/seedverify.XXXX)
git -C /repo worktree add -q --detach "$WT" HEAD || exit 3
cleanup() { git -C /repo worktree remove --force "$WT" 2>/dev/null; rm -rf "$WT"; }
trap cleanup EXIT
cd "$WT"
place=$(python3 -c "import json;print(json.load(open('$D/meta.json')).get('demo_place','.'))" 2>/dev/null || echo .)
case "$place" in /*|*seed*|"") place=. ;; esac
[ -d "$place" ] || place=.
run=$(python3 -c "import json,re;c=json.load(open('$D/meta.json')).get('demo_cmd','');m=re.search(r'-run\s+(\S+)',c);print(m.group(1) if m else 'Test')")
cp "$D/demo_test.go" "$place/zz_seed_demo_test.go"
go test -vet=off -count=1 -run "$run" "./$place" >/dev/null 2>&1; base=$?
git apply "$D/patch.diff" || { echo "VERIFY $D: patch does not apply"; exit 3; }
go test -vet=off -count=1 -run "$run" "./$place" >/dev/null 2>&1; mut=$?
rm "$place/zz_seed_demo_test.go"
go build ./... >/dev/null 2>&1; b=$?
go test -vet=off -count=1 ./... >/dev/null 2>&1; suite=$?
echo "VERIFY $D: demo-without-patch=$base (want 0) demo-with-patch=$mut (want !=0) build=$b suite-with-patch=$suite (want 0)"
