#!/usr/bin/env python3
# addfixed.py <property> <commit> <signature> <what failed> [world] [history step ...]
import json,sys
prop,commit,sig,text=sys.argv[1:5]
world=sys.argv[5] if len(sys.argv)>5 else ""
hist=sys.argv[6:]
d=json.load(open('/verif/known_findings.json'))
d.append({"property":prop,"signature":sig,"status":"fixed","commit":commit,"text":f"fixed: property={prop} {commit} {text}","witness":{"world":world,"history":hist}})
json.dump(d,open('/verif/known_findings.json','w'),indent=1)
print(len(d))
