#!/usr/bin/env python3
# Regenerates MANIFEST.json from the table below (kept next to the checks so
# that claimed properties, techniques and not_applicable stay in step).
import json
props=[json.loads(l) for l in open('/verif/properties.jsonl')]
SEQ="explicit-state model checking: breadth-first search over all operation sequences of the real handler (state hashing on canonical API snapshot + raw storage dump), reference-model oracle on every transition and every reached state"
INP="bounded-exhaustive enumeration of a finite input/environment-answer space (complete factor products) executed on the real handler, arithmetic/reference oracle on every case"
C={
 "C01":("inputmc",INP,"every upload of three complete factor products (size x pattern x path x integrity; key x path; metadata subset x path x start state) on every backend is read back by GET (twice), HEAD, listing and the Go Backend API and compared with checker-computed bytes, length, ETag and metadata","§4 C01"),
 "C02":("seqmc",SEQ,"every sequence of mutating bucket/object requests over a 2-bucket, 2-3-key universe up to the stated depth (thorough: to closure) is executed on every backend and compared step by step with the A.1 store model; all reads are evaluated in every reached state","§4 C02"),
 "C03":("seqmc",SEQ+"; the listing oracle is evaluated as a state predicate","all live sets (size <= 3 quick / <= 4 thorough) of every key of length <= 3 over two 3-letter alphabets containing the delimiter, reached by put/delete histories, on every backend; in every state every prefix x delimiter x V1|V2 listing is compared with the A.2 grouping oracle","§4 C03"),
 "C04":("seqmc",SEQ+"; complete paginated walks are evaluated as a state predicate","same states as C03; in every state every (prefix, delimiter, max-keys 1..n+1, start marker, V1|V2) walk is followed to the end on the paginating backend and checked for page size, order, no skip/repeat, common prefixes once, termination and IsTruncated; the fallback path of the other backends is checked with and without the refuse option","§4 C04"),
 "C05":("seqmc",SEQ,"every history of put / delete / delete-version / multi-delete(+versions) / set-versioning over 2 keys (and deeper over 1 key) on the memory backend is compared with the A.3 version-stack model; in every state every live and deleted version id is read by GET and HEAD","§4 C05"),
 "C06":("seqmc",SEQ,"every history of initiate / upload-part / complete (all lists, subsets, out-of-order, never-uploaded numbers, stale and foreign ETags) / abort / put over 2-3 keys with up to 2-3 concurrent uploads on every backend is compared with the A.4 multipart model; objects, pending parts and closed upload ids are re-read in every state","§4 C06"),
 "C08":("inputmc",INP+"; body-reader faults enumerated at every byte position","every combination of Content-MD5 form x declared length x framing x integrity x start state, key/metadata limits, and a reader fault after j bytes for every j, for object and part uploads on every backend: accepted exactly when valid, and after every rejection the full snapshot equals the snapshot before","§4 C08"),
 "C11":("inputmc",INP,"every (object size 0..N, Range header) pair of the menu (all first/last/suffix values in -1..N+2 and around 2^31/2^63/2^64, whitespace, malformed, units, multi-range) on every backend against the arithmetic oracle and across backends","§4 C11"),
 "C12":("inputmc",INP+"; deviations = short reads of the transport","narrow seam: every payload/chunk composition x fragmentation (every single cut, cut pairs at chunk boundaries, uniform short reads, data+EOF) x consumer buffer size on the real decoder; handler seam: payload x chunk size x fragmentation on every backend; malformed and truncated streams must be rejected with the key unchanged","§4 C12"),
 "C13":("seqmc",SEQ+"; version listings evaluated as a state predicate","in every state of the C05 search every ListObjectVersions request (prefix x delimiter, unpaginated; every max-keys walked with the server's markers; client marker pairs naming existing versions) is compared with the version-stack model","§4 C13"),
 "C14":("seqmc",SEQ+"; multipart listings evaluated as a state predicate","in every state of the C06 search ListMultipartUploads (prefix x delimiter x every max-uploads, server markers) and ListParts (every max-parts, server markers, arbitrary numeric markers) are compared with the multipart model","§4 C14"),
 "C17":("inputmc",INP,"every string over an 8-letter alphabet up to the length bound plus length/IP families is sent as PUT /<name> to the memory, bolt and multi-bucket fs backends and compared with an independent regex-free implementation of the rule; refused names are probed, and ListBuckets must equal the created set","§4 C17"),
}
NOTE="trusted: the Go reference models in mc/model (each < 200 lines), net/http request/response types, bbolt, afero and the Go runtime; the handler is driven through ServeHTTP without the HTTP transport; all bounds are small-scope and listed in the evidence file"
checks=[]
for p in props:
    i=p['id']
    if i not in C: continue
    eng,tech,text,ref=C[i]
    checks.append({"property_id":i,"quick_cmd":"./check %s quick"%i,"thorough_cmd":"./check %s thorough"%i,"evidence_file":"evidence/%s.json"%i,
      "replay_cmd_template":"./check %s --replay {path}"%i,"engine":eng,"technique":tech,
      "level_claimed":{"category":"model_checking","text":text,"design_ref":"DESIGN.md "+ref},"level_note":NOTE})
m={"version":1,"setup_cmd":"./setup.sh",
 "hooks":{"guard":"none (build-time overlay generated from the working tree by mc/instrument; nothing in /repo is changed by instrumentation)",
  "enable":"./check <id> generates a go build -overlay from /repo's working tree (sync -> vsync shim, bbolt -> vbolt shim in s3bolt, bbolt writeAt hook, overlay-only export file) and builds mc/cmd/verifmc with it",
  "baseline_off_cmd":"cd /repo && GOFLAGS=-mod=mod GOPROXY=off GOSUMDB=off go test -vet=off -count=1 ./...",
  "source_commits":[],"add_only":True},
 "engines":[
  {"name":"seqmc","path":"mc/engine/seqmc.go","serves_properties":[k for k,v in C.items() if v[0]=="seqmc"],"kind_free_text":"explicit-state breadth-first search over operation sequences of the real handler; successor = replay of the shortest history on a fresh instance + one operation; replay determinism enforced"},
  {"name":"inputmc","path":"mc/props","serves_properties":[k for k,v in C.items() if v[0]=="inputmc"],"kind_free_text":"bounded-exhaustive enumeration of inputs / environment answers (short reads, reader faults) against the real handler"}],
 "checks":checks,
 "not_applicable":[{"property_id":p['id'],"reason":"check under construction in this session (engine exists, property-specific driver not finished yet); will be claimed"} for p in props if p['id'] not in C],
 "notes":"All checks: ./check <id> quick|thorough. Known and fixed findings: known_findings.json. Design: DESIGN.md."}
json.dump(m,open('/verif/MANIFEST.json','w'),indent=1)
print(len(checks),"checks")
