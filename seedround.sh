#!/bin/bash
# seedround.sh <prefix>  e.g. r6 : verifies every /tmp/seed/<prefix>-Cxx/seeded/{A,B} and runs the
# property's own quick check against it (scratch worktrees only). Prints one line per seed.
HERE=$(cd "$(dirname "$0")" && pwd)
R=$1
export VERIF_NO_RACE=${VERIF_NO_RACE-1}
one() {
  d=$1; p=$2
  v=$("$HERE/seedverify.sh" "$d" 2>&1 | tail -1)
  case "$v" in *"demo-without-patch=0 (want 0) demo-with-patch=1 (want !=0) build=0 suite-with-patch=0 (want 0)"*) v=verified;; *) v="NOT-VERIFIED[$v]";; esac
  t=$("$HERE/seedtest.sh" "$d" "$p" 2>&1 | grep -a -E "^==|signature" | head -3 | tr '\n' ' ')
  echo "$d $v $t"
}
for i in $(seq -w 1 17); do
  p=C$i
  for m in A B; do
    d=/tmp/seed/$R-$p/seeded/$m
    [ -f "$d/patch.diff" ] || { echo "$d MISSING"; continue; }
    one "$d" "$p" &
  done
  # two at a time per property; four properties in flight
  if [ $((10#$i % 3)) = 0 ]; then wait; fi
done
wait
