# sourced by every entry point
export GOFLAGS=-mod=mod GOPROXY=off GOSUMDB=off GOTOOLCHAIN=local
export VERIF_ROOT=${VERIF_ROOT:-/verif}
export VERIF_REPO=${VERIF_REPO:-/repo}
