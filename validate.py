#!/opt/veriftools/pyvenv/bin/python
import json,sys,glob,jsonschema
m=json.load(open('/verif/MANIFEST.json'))
jsonschema.validate(m,json.load(open('/root/.vp/MANIFEST.schema.json')))
es=json.load(open('/root/.vp/EVIDENCE.schema.json'))
bad=0
for c in m['checks']:
    f='/verif/'+c['evidence_file']
    try:
        e=json.load(open(f)); jsonschema.validate(e,es)
        assert e['property_id']==c['property_id']
    except Exception as ex:
        bad+=1; print('BAD',f,str(ex)[:300])
ids={json.loads(l)['id'] for l in open('/verif/properties.jsonl')}
have={c['property_id'] for c in m['checks']}|{n['property_id'] for n in m.get('not_applicable',[])}
if ids!=have: print('MISSING/EXTRA',ids^have); bad+=1
print('manifest ok; evidence problems:',bad)
sys.exit(1 if bad else 0)
