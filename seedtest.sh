#!/bin/bash
# seedtest.sh <seed-dir> <check-id>...   — applies <seed-dir>/patch.diff to /repo, runs the checks, reverts.
set -u
HERE=$(cd "$(dirname "$0")" && pwd)
D=$1; shift
TIER=${TIER:-quick}
git -C /repo apply "$D/patch.diff" || { echo "APPLY-FAILED $D"; exit 3; }
trap 'git -C /repo checkout -- . ' EXIT
for id in "$@"; do
  out=$("$HERE/check" "$id" "$TIER" 2>&1); rc=$?
  nv=$(echo "$out" | grep -a -c '^VIOLATION')
  echo "== $D $id $TIER rc=$rc violations=$nv"
  echo "$out" | grep -a -E '^  signature|^HARNESS' | head -6
done
