#!/bin/bash
# seedtest.sh <seed-dir> <check-id>...  - applies <seed-dir>/patch.diff to a scratch worktree of /repo
# (never to /repo itself), runs the checks against it with VERIF_REPO, removes the worktree.
set -u
HERE=$(cd "$(dirname "$0")" && pwd)
D=$1; shift
TIER=${TIER:-quick}
WT=$(mktemp -d /tmp/seedtest.XXXXXX)
git -C /repo worktree add -q --detach "$WT" HEAD || exit 3
trap 'git -C /repo worktree remove --force "$WT" 2>/dev/null; rm -rf "$WT"' EXIT
git -C "$WT" apply "$D/patch.diff" || { echo "APPLY-FAILED $D"; exit 3; }
for id in "$@"; do
  out=$(VERIF_REPO="$WT" "$HERE/check" "$id" "$TIER" 2>&1); rc=$?
  nv=$(echo "$out" | grep -a -c '^VIOLATION')
  echo "== $D $id $TIER rc=$rc violations=$nv"
  echo "$out" | grep -a -E '^  signature|^HARNESS' | head -6
done
